#!/bin/bash
# exit 1 if the violation shows, 0 if the property holds
cd "$(dirname "$0")/../.." || exit 2
cargo build --offline >/dev/null 2>&1 || { echo "build failed"; exit 2; }
P=./target/debug/p2sh
out=$($P -c 'let c = char(256); puts(byte(c), " ", byte(int(c)), " ", byte(str(c)), " ", byte(c) == byte(0))' 2>&1)
echo "byte(c) byte(int(c)) byte(str(c)) byte(c)==byte(0) for c = char(256): $out"
echo "expected: null null null false"
case "$out" in
  "null null null false") echo "property holds"; exit 0 ;;
esac
case "$out" in
  *"Runtime error: byte:"*) echo "property holds (refused with a runtime error naming byte)"; exit 0 ;;
esac
echo "VIOLATION: byte(<char above 0xff>) wrapped silently"; exit 1
