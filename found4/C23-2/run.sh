#!/bin/sh
# exit 1 if the REPL and the equivalent script disagree (violation), 0 if they agree
cd "$(dirname "$0")/../.." || exit 2
cargo build --offline >/dev/null 2>&1 || exit 2
RUSTFLAGS="--cfg p2sh_verif" cargo build --offline --target-dir target-verif >/dev/null 2>&1 || exit 2
L1='let f = fn(x) { x }'
L2='let g = fn(x) { x }'
L3='f == g'
repl=$(printf '%s\n%s\n%s\n' "$L1" "$L2" "$L3" | P2SH_VERIF_REPL_STDIN=1 ./target-verif/debug/p2sh 2>&1 | sed -n 3p)
# the script made of the three lines, one per line; -c echoes the final expression
script=$(./target/debug/p2sh -c "$L1;
$L2;
$L3" 2>&1)
echo "REPL   line 3 prints: $repl"
echo "script line 3 prints: $script"
if [ "$repl" != "$script" ]; then
    echo "VIOLATION: the REPL line prints something else than the same line at the end of the script"
    exit 1
fi
exit 0
