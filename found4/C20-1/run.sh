#!/bin/bash
# exit 1 if the violation shows, 0 if the property holds
cd "$(dirname "$0")/../.." || exit 2
cargo build --offline >/dev/null 2>&1 || exit 2
P=./target/debug/p2sh
T=$(mktemp -d)
# a pcap stream: global header with snaplen 40, three records of 30, 60 and 30 captured bytes
python3 - "$T/in.pcap" <<'PY'
import struct, sys
b = struct.pack('<IHHiIII', 0xa1b2c3d4, 2, 4, 0, 0, 40, 1)
for i, n in enumerate([30, 60, 30]):
    b += struct.pack('<IIII', 100 + i, i, n, n) + bytes([i + 1]) * n
open(sys.argv[1], 'wb').write(b)
PY
$P -c '@ true' < "$T/in.pcap" > "$T/out.pcap" 2> "$T/err1.txt"
$P -s -c '@ true { println("{} {} {} {} {}", NP, PL, WL, TSS, TSU) } @ end { println("end {}", NP) }' < "$T/in.pcap" > "$T/out.txt" 2> "$T/err2.txt"
echo "input bytes:  $(wc -c < "$T/in.pcap")"
echo "output bytes: $(wc -c < "$T/out.pcap")   (stderr: $(cat "$T/err1.txt"))"
echo "-s output:"; cat "$T/out.txt"; echo "(stderr: $(cat "$T/err2.txt"))"
want=$'1 30 30 100 0\n2 60 60 101 1\n3 30 30 102 2\nend 3'
rc=0
cmp -s "$T/in.pcap" "$T/out.pcap" || rc=1
[ "$(cat "$T/out.txt")" == "$want" ] || rc=1
rm -rf "$T"
if [ $rc -eq 1 ]; then echo "VIOLATION: packets 2 and 3 never reached the filters"; fi
exit $rc
