#!/bin/bash
# exit 1 if the violation shows, 0 if the property holds
cd "$(dirname "$0")/../.." || exit 2
cargo build --offline >/dev/null 2>&1 || { echo "build failed"; exit 2; }
P=./target/debug/p2sh
a=$($P -c 'round(500000000000000.0625, 1)' 2>&1)
b=$($P -c 'round(4.6000000000000005, 15)' 2>&1)
c=$($P -c 'let x = 500000000000000.0625; round(x, 1) == x' 2>&1)
ref=$($P -c 'round(400000000000000.0625, 1)' 2>&1)
echo "round(500000000000000.0625, 1) = $a   (expected 500000000000000.1)"
echo "round(4.6000000000000005, 15)  = $b   (expected 4.600000000000001)"
echo "round(x,1) == x for x=500000000000000.0625: $c   (expected false)"
echo "round(400000000000000.0625, 1) = $ref   (below the threshold, rounds)"
if [ "$a" = "500000000000000.1" ] && [ "$b" = "4.600000000000001" ] && [ "$c" = "false" ]; then
  echo "property holds"; exit 0
fi
echo "VIOLATION: round returned its argument unrounded"; exit 1
