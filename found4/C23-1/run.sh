#!/bin/sh
# exit 1 if the REPL and the equivalent script disagree (violation), 0 if they agree
cd "$(dirname "$0")/../.." || exit 2
cargo build --offline >/dev/null 2>&1 || exit 2
RUSTFLAGS="--cfg p2sh_verif" cargo build --offline --target-dir target-verif >/dev/null 2>&1 || exit 2
F="$(pwd)/FOUND/1/out.txt"
L1="[0, 0, write(open(\"$F\", \"w\"), \"hello\")]"
L2="read_to_string(open(\"$F\"))"

rm -f "$F"
repl=$(printf '%s\n%s\n' "$L1" "$L2" | P2SH_VERIF_REPL_STDIN=1 ./target-verif/debug/p2sh 2>&1 | sed -n 4p)
rm -f "$F"
# the script made of line 1 followed by line 2 (one line each); -c echoes the final expression
script=$(./target/debug/p2sh -c "$L1;
$L2" 2>&1)
rm -f "$F"
echo "REPL   line 2 prints: $repl"
echo "script line 2 prints: $script"
if [ "$repl" != "$script" ]; then
    echo "VIOLATION: the REPL line prints something else than the same line at the end of the script"
    exit 1
fi
exit 0
