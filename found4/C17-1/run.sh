#!/bin/sh
# exit 1 if the violation shows, 0 if the property holds
cd "$(dirname "$0")/../.." || exit 2
cargo build --offline >/dev/null 2>&1 || exit 2
T=$(mktemp -d)
cat > "$T/w.p2" <<P
let o = pcap_open("$T/o.pcap", "w");
o.linktype = 105; o.snaplen = 1000; o.major = 7; o.minor = 1; o.thiszone = -5; o.sigfigs = 9; o.magic = 0xA1B23C4D;
println("{} {} {} {} {} {} {}", o.linktype, o.snaplen, o.major, o.minor, o.thiszone, o.sigfigs, o.magic);
P
cat > "$T/r.p2" <<P
let o = pcap_open("$T/o.pcap");
println("{} {} {} {} {} {} {}", o.linktype, o.snaplen, o.major, o.minor, o.thiszone, o.sigfigs, o.magic);
P
A=$(./target/debug/p2sh "$T/w.p2")
B=$(./target/debug/p2sh "$T/r.p2")
echo "read back immediately      : $A"
echo "after serialise + re-parse : $B"
rm -rf "$T"
if [ "$A" = "105 1000 7 1 -5 9 2712812621" ] && [ "$A" != "$B" ]; then
  echo "VIOLATION: assigned pcap header properties are not serialised"
  exit 1
fi
exit 0
