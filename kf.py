#!/usr/bin/env python3
"""kf.py fixed <PROP> <commit> <what>   |   kf.py known <PROP> <id> <what> [example]   -- edit known_findings.json (never at check time)"""
import json,sys
p='/verif/known_findings.json'
d=json.load(open(p))
if sys.argv[1]=='fixed':
    _,_,prop,commit,what=sys.argv[:5]
    d['findings'].append({"status":"fixed","property":prop,"commit":commit,"what":f"fixed: property={prop} {commit} {what}"})
else:
    _,_,prop,fid,what=sys.argv[:5]
    e={"status":"known","property":prop,"id":fid,"what":what}
    if len(sys.argv)>5: e["example"]=sys.argv[5]
    d['findings']=[f for f in d['findings'] if f.get('id')!=fid]+[e]
json.dump(d,open(p,'w'),indent=1)
