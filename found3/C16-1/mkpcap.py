# regenerates deep.pcap: eth + 8 stacked 802.1Q tags + IPv4 + TCP
import struct
tcp = struct.pack('>HHIIHHHH', 1234, 80, 1, 2, 0x5018, 100, 0, 0) + b'hi'
ip = bytes([0x45, 0]) + struct.pack('>HHHBBH', 20+len(tcp), 1, 0, 64, 6, 0) + bytes([10,0,0,1]) + bytes([10,0,0,2])
inner = ip + tcp; ty = 0x0800
for i in range(8):
    inner = struct.pack('>HH', 100+i, ty) + inner; ty = 0x8100
frame = bytes(range(1,13)) + struct.pack('>H', ty) + inner
out = struct.pack('<IHHiIII', 0xa1b2c3d4, 2, 4, 0, 0, 65535, 1)
out += struct.pack('<IIII', 1, 2, len(frame), len(frame)) + frame
open('deep.pcap','wb').write(out)
