#!/bin/bash
cd "$(dirname "$0")/../.." || exit 2
cargo build --offline >/dev/null 2>&1 || exit 2
D=FOUND/1
# deep.pcap: one frame = Ethernet + 8 stacked 802.1Q tags + IPv4 + TCP (srcport 1234)
# so $0=packet $1=eth $2..$9=vlan $10=ipv4 $11=tcp
out=$(./target/debug/p2sh -s "$D/probe.p2" < "$D/deep.pcap" 2>&1)
echo "$out"
if echo "$out" | grep -q '^d11 1234$'; then
  echo "OK: \$11 descends into the TCP layer"; exit 0
fi
echo "VIOLATION: \$11 did not yield the TCP layer selected by the protocol field (nor null / an error object)"
exit 1
