#!/bin/bash
cd "$(dirname "$0")/../.." || exit 2
cargo build --offline >/dev/null 2>&1 || exit 2
D=FOUND/1

# 1st choice: the real interactive REPL of ./target/debug/p2sh, driven through a pty
out=""
if command -v python3 >/dev/null 2>&1; then
    out=$(timeout 50 python3 $D/pty_repl.py ./target/debug/p2sh $D/history.txt 2>/dev/null) || out=""
fi
# fallback: the cfg-guarded hook that makes the real run_prompt loop read its lines from stdin
if [ -z "$out" ]; then
    RUSTFLAGS="--cfg p2sh_verif" cargo build --offline --target-dir target-verif >/dev/null 2>&1 || exit 2
    out=$(P2SH_VERIF_REPL_STDIN=1 ./target-verif/debug/p2sh < $D/history.txt 2>&1 | grep -v '^$' | grep -v '^Exiting')
fi
echo "--- REPL transcript (interpreter output only):"; echo "$out"

# keep only the echoed values: drop the two banner lines and the runtime error message
mapfile -t L < <(echo "$out" | sed -n '3,$p' | grep -v 'Runtime error')
# L[0] = echo of `r[0]()`, L[1] = echo of `r[1](99)`, L[2] = echo of `u`

# reference: in every script made of the accepted lines, `u` is 7 after `let u = 7`
# (nothing in the history ever assigns to u)
ref=$(./target/debug/p2sh $D/script_truncated.p2 2>&1)
echo "--- script reference for u: $ref"

bad=0
# r[0]() reads the variable `secret` (initialised to 1 before the error): it can be 1 (statement
# run up to its error), or r[0] can be null (statement dropped) - it can never be u's value 7
if [ "${L[0]}" = "7" ]; then echo "VIOLATION: r[0]() returned the value of the unrelated later binding u"; bad=1; fi
# u must still be 7 at the end
if [ "${L[2]}" != "$ref" ]; then echo "VIOLATION: u is '${L[2]}' in the REPL, '$ref' in a script"; bad=1; fi
exit $bad
