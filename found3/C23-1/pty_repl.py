#!/usr/bin/env python3
# Drives the real interactive REPL (./target/debug/p2sh without arguments) through a pty:
# types every line of the history file, prints what the REPL printed (ANSI codes removed,
# prompt/echo lines removed) - i.e. only the output lines of the interpreter.
import pty, os, sys, time, select, re

binary, hist = sys.argv[1], sys.argv[2]
lines = open(hist).read().splitlines()
pid, fd = pty.fork()
if pid == 0:
    os.execv(binary, [binary])

ansi = re.compile(rb"\x1b\[[0-9;?]*[a-zA-Z]")
buf = b""

def prompts():
    return ansi.sub(b"", buf).count(b"? >>")

def wait_prompt(n, timeout=20.0):
    global buf
    end = time.time() + timeout
    while prompts() < n and time.time() < end:
        r, _, _ = select.select([fd], [], [], 0.2)
        if r:
            try:
                d = os.read(fd, 65536)
            except OSError:
                return False
            if not d:
                return False
            buf += d
    return prompts() >= n

ok = wait_prompt(1)
n = 1
for l in lines:
    if not ok:
        break
    os.write(fd, l.encode() + b"\r")
    n += 1
    ok = wait_prompt(n)
os.write(fd, b"quit\r")
time.sleep(0.3)
try:
    buf += os.read(fd, 65536)
except OSError:
    pass
if not ok:
    sys.exit(3)
text = ansi.sub(b"", buf).decode(errors="replace").replace("\r", "")
for l in text.split("\n"):
    if l.startswith("? >>") or l.strip() == "" or l.startswith("Exiting") or "✔ >>" in l:
        continue
    print(l)
