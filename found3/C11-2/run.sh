#!/bin/bash
cd "$(dirname "$0")/../.." || exit 2
cargo build --offline >/dev/null 2>&1 || exit 2
P=./target/debug/p2sh
D=FOUND/2
bad=0
for f in insert contains get; do
  out=$($P $D/null_$f.p2 2>&1)
  echo "$out"
  # null is not a documented key kind: a runtime error naming the builtin is required
  echo "$out" | grep -q "Runtime error: $f: " || bad=1
done
if [ $bad -eq 1 ]; then
  echo "VIOLATION: insert/contains/get accept null (an undocumented key kind) without a runtime error"
  exit 1
fi
echo "property holds on these inputs"
exit 0
