#!/bin/bash
cd "$(dirname "$0")/../.." || exit 2
cargo build --offline >/dev/null 2>&1 || exit 2
tmp=$(mktemp -d) || exit 2
trap 'rm -rf "$tmp"' EXIT
./target/debug/p2sh FOUND/3/test.p2 FOUND/3/in.pcap "$tmp/out.pcap" >"$tmp/out" 2>"$tmp/err"
cat "$tmp/out" "$tmp/err"
if grep -q "Runtime error" "$tmp/err"; then
  echo "property holds: the invalid value was rejected"
  exit 0
fi
if grep -q "^after : eth=5$" "$tmp/out"; then
  # the record that was written: 16 byte record header announcing caplen 66, followed by ...
  size=$(stat -c %s "$tmp/out.pcap")
  echo "out.pcap is $size bytes (24 global + 16 record header + $((size-40)) data bytes; the record header still announces caplen 66)"
  echo "VIOLATION: 'p.eth = 5' raised no error and the packet now contains the integer"
  exit 1
fi
echo "unexpected output"
exit 2
