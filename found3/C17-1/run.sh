#!/bin/bash
cd "$(dirname "$0")/../.." || exit 2
cargo build --offline >/dev/null 2>&1 || exit 2
out=$(./target/debug/p2sh FOUND/1/test.p2 FOUND/1/in.pcap 2>&1)
echo "$out"
# "every other property reads as before": the text after the first 11 characters
# of the before/after lines must be the same
b1=$(echo "$out" | sed -n 1p | cut -c13-); a1=$(echo "$out" | sed -n 2p | cut -c13-)
b2=$(echo "$out" | sed -n 3p | cut -c12-); a2=$(echo "$out" | sed -n 4p | cut -c12-)
if [ -z "$b1" ] || [ -z "$b2" ]; then echo "unexpected output"; exit 2; fi
if [ "$b1" != "$a1" ] || [ "$b2" != "$a2" ]; then
  echo "VIOLATION: a layer property that read null before the assignment of the selector field reads as a parsed layer afterwards"
  exit 1
fi
echo "property holds"
exit 0
