# generates in.pcap (already stored next to this file); kept for reference
import struct
def pcap(frames):
    out=struct.pack('<IHHiIII',0xa1b2c3d4,2,4,0,0,65535,1)
    for i,f in enumerate(frames):
        out+=struct.pack('<IIII',1000+i,500+i,len(f),len(f))+f
    return out
mac=bytes.fromhex('001122334455')+bytes.fromhex('66778899aabb')
icmp=bytes([8,0,0xf7,0xff,0,1,0,1])+b'abcdefghijklmnopqrstuvwx'      # 32 bytes of ICMP echo
ip=bytes([0x45,0])+struct.pack('>HHHBBH',20+len(icmp),0x1234,0x4000,64,1,0xbeef)+bytes([10,0,0,1,10,0,0,2])+icmp
arp=bytes.fromhex('0001080006040001')+bytes.fromhex('66778899aabb')+bytes([10,0,0,1])+bytes(6)+bytes([10,0,0,2])+bytes(18)
open('in.pcap','wb').write(pcap([mac+b'\x08\x00'+ip, mac+b'\x08\x06'+arp]))
