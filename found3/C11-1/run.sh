#!/bin/bash
cd "$(dirname "$0")/../.." || exit 2
cargo build --offline >/dev/null 2>&1 || exit 2
P=./target/debug/p2sh
D=FOUND/1
out1=$($P $D/nan_lookup.p2 2>&1)
out2=$($P $D/nan_get.p2 2>&1)
echo "$out1"
echo "$out2"
bad=0
# documented: contains -> false when the key is not present
echo "$out1" | grep -q '^nan contains: false$' || bad=1
# documented: get -> null when there is no value for the key
echo "$out2" | grep -q '^nan get: null$' || bad=1
if echo "$out1$out2" | grep -q 'Runtime error'; then bad=1; fi
if [ $bad -eq 1 ]; then
  echo "VIOLATION: contains/get raise a runtime error for a float (NaN) key instead of returning false/null"
  exit 1
fi
echo "property holds on these inputs"
exit 0
