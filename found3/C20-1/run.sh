#!/bin/bash
cd "$(dirname "$0")/../.." || exit 2
cargo build --offline >/dev/null 2>&1 || exit 2
D=FOUND/1
OUT=$(mktemp)
trap 'rm -f "$OUT"' EXIT
./target/debug/p2sh $D/snap.p2 < $D/in.pcap > "$OUT" 2>/dev/null

# Walk the output as a pcap stream: 24-byte global header, then records of
# 16 bytes + caplen bytes. The property holds when the stream is well framed,
# has exactly the 3 selected packets and each of them has caplen 20.
size=$(stat -c %s "$OUT")
off=24
n=0
bad=0
while [ "$off" -lt "$size" ]; do
    if [ $((off + 16)) -gt "$size" ]; then bad=1; break; fi
    cap=$(od -An -tu4 -j $((off + 8)) -N4 "$OUT" | tr -d ' ')
    [ "$cap" = "20" ] || bad=1
    off=$((off + 16 + cap))
    n=$((n + 1))
done
[ "$off" -eq "$size" ] || bad=1
[ "$n" -eq 3 ] || bad=1
echo "output bytes: $size, records found when walking the stream: $n, walk ended at: $off"
if [ "$bad" -eq 1 ]; then
    echo "VIOLATION: output is not a well framed pcap stream of the 3 selected packets"
    exit 1
fi
echo "property holds"
exit 0
