#!/bin/bash
cd "$(dirname "$0")/../.." || exit 2
cargo build --offline >/dev/null 2>&1 || exit 2
out=$(./target/debug/p2sh FOUND/2/test.p2 FOUND/2/in.pcap 2>&1)
echo "$out"
b=$(echo "$out" | sed -n 1p | cut -c8-); a=$(echo "$out" | sed -n 2p | cut -c8-)
if [ -z "$b" ] || [ -z "$a" ]; then echo "unexpected output"; exit 2; fi
if [ "$b" != "$a" ]; then
  echo "VIOLATION: ipv4 / ipv6 of the ethernet object read differently after assigning only 'type'"
  exit 1
fi
echo "property holds"
exit 0
