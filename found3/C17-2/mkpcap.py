# generates in.pcap (already stored next to this file); kept for reference
import struct
def pcap(frames):
    out=struct.pack('<IHHiIII',0xa1b2c3d4,2,4,0,0,65535,1)
    for i,f in enumerate(frames):
        out+=struct.pack('<IIII',1000+i,500+i,len(f),len(f))+f
    return out
mac=bytes.fromhex('001122334455')+bytes.fromhex('66778899aabb')
ip=bytes([0x45,0])+struct.pack('>HHHBBH',40,0x1234,0x4000,64,17,0xbeef)+bytes([10,0,0,1,10,0,0,2])
# Ethernet + the first 15 bytes of an IPv4 header (snapped capture)
open('in.pcap','wb').write(pcap([mac+b'\x08\x00'+ip[:15]]))
