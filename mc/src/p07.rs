//! C07 — statements leave the operand stack balanced so loops run in constant stack.
//! Decided on a model of the implementation (the compiled bytecode's control-flow graph with
//! per-opcode stack effects, explored exhaustively with both branch directions, i.e. for every
//! number of iterations), bound to the VM by replaying every program's concrete instruction trace.

use crate::ast::*;
use crate::bcmodel::*;
use crate::fw::*;
use crate::refval::*;
use crate::subject::*;
use crate::vm::interpreter::VM;
use serde_json::{json, Value};
use std::rc::Rc;

/// statement contexts that keep `k` operands pending while the hole □ is evaluated: (text with □, k)
const CONTEXTS: &[(&str, usize)] = &[
    ("□;", 0),
    ("let y = □;", 0),
    ("x = □;", 0),
    ("-(□);", 0),
    ("!(□);", 0),
    ("if □ { 1 } else { 2 };", 0),
    ("match □ { 1 => 1, _ => 2 };", 0),
    ("(□) && 1;", 0),
    ("0 || (□);", 0),
    ("1 + (□);", 1),
    ("(□) + 1;", 0),
    ("[□];", 0),
    ("[1, □];", 1),
    ("[1, 2, □];", 2),
    ("g(□);", 1),
    ("g2(1, □);", 2),
    ("g3(1, 2, □);", 3),
    ("a[□];", 1),
    ("a[0] = (□);", 0),
    ("a[□] = 5;", 2),
    ("map {1: □};", 1),
    ("map {(□): 1};", 0),
    ("1 + (2 * (□));", 2),
    ("let z = 1 + (□);", 1),
    ("if true { 1 + (□) } else { 0 };", 1),
    ("match 1 { 1 => { 1 + (□) } _ => 0 };", 1),
    ("1 < (□);", 0),
    ("(□) < 1;", 1),
];

/// jump-carrying fillers for □ (J is replaced by the jump statement)
const FILLERS: &[&str] = &[
    "if c { J } else { 2 }",
    "if c { 3 } else { J }",
    "if c { J }",
    "match i { 2 => { J } _ => 2 }",
    "if c { if i == 2 { J }; 4 } else { 2 }",
];

/// loop shapes: (prefix, suffix, jumps usable inside)
const LOOPS: &[(&str, &str, &[&str])] = &[
    ("while i < #N# { i = i + 1; let c = i == 2; ", " }", &["break", "continue"]),
    ("loop { i = i + 1; if i > #N# { break; } let c = i == 2; ", " }", &["break", "continue"]),
    ("o: while i < #N# { i = i + 1; let j = 0; while j < 2 { j = j + 1; let c = j == 2; ", " } }", &["break", "continue", "break o", "continue o"]),
    ("o: loop { i = i + 1; if i > #N# { break; } let j = 0; n: loop { j = j + 1; if j > 2 { break; } let c = j == 1; ", " } }", &["break", "continue", "break o", "continue o", "break n", "continue n"]),
];

/// expression statements looped many times (each must be balanced)
const LOOPED: &[&str] = &[
    "1;", "x;", "x + 1;", "-x;", "!x;", "~x;", "x = x + 1;", "a[0];", "a[0] = i;", "[1, 2, 3];", "map {1: 2};", "g(i);", "g2(i, 1);",
    "g3(1, 2, 3);", "len(a);", "x && 1;", "0 && x;", "x || 1;", "0 || x;", "if x > 1 { 1 };", "if x > 1 { 1 } else { 2 };",
    "if i % 2 == 0 { 1 } else { let q = 2; };", "if i % 2 == 0 { let q = 1; } else { 2 };",
    "if i % 2 == 0 { 1 } else { let q = 2; q + 1 };", "if i % 2 == 0 { 1 } else { q0(); let q = 2; };",
    "if i % 2 == 0 { let q = 1; q } else if i % 3 == 0 { 2; let r = 3; } else { let s = 1; s };",
    "match i % 3 { 0 => 1, 1 => { let q = 2; } _ => { 3; let r = 1; } };", "match i % 3 { 0 | 1 => { let q = 1; q } 2..5 => 2, _ => 3 };",
    "match \"a\" { \"a\"..\"c\" | \"x\" => 1, _ => 2 };", "let f = fn() { i }; f();", "fn h(n) { if n > 0 { h(n - 1) } } h(3);",
    "let k = fn() { let n = 0; fn() { n = n + 1; n } }(); k();", "{ let b = 1; b + 1; }", "{ }", "q0();", "q1();", "q2(i);",
    "$0;", "$1;", "if $0 { 1 };", "NP;", "argv;", "let t = [i, [i]]; t[1][0];", "str(i);", "a[0] = a[0] + 1;", "x = y = i;",
    // statements that must either be rejected or stay balanced: assignments to something that is not assignable,
    // a dot followed by something that is not a property, an else without a block
    "stdout = 1;", "len(a) = 1;", "null = 1;", "$0 = 1;", "[1] = 2;", "if x > 1 { 1 } else { 2 } = 3;", "x.true;", "x.null;", "x.if x > 1 { 1 } else { 2 };",
    "if x > 1 { 1 } else 2;", "g(1) = 2;", "NP = 1;",
    // container literals whose size differs from the number of elements written (repeated keys, keys equal across kinds), and empty ones
    "map {1: 1, 1: 2};", "map {i % 2: 1, 0: 2, 1: 3};", "map {\"a\": i, \"b\": i, \"a\": i};", "map {1: 1, 1.0: 2, 2: 3};", "map {[1]: 1, [1.0]: 2};", "map {};", "[];",
    "let m = map {x: 1, 1: 2}; m[1];", "g(map {0.0: 1, -0.0: 2});",
    "while false { 1; }", "loop { break; }", "let w = 0; while w < 2 { w = w + 1; if w == 1 { continue; } 1 + 2; }",
];

/// items of a block body (F4)
const BODY_ITEMS: &[&str] = &[
    "1;",
    "let q = 1;",
    "{ 1 }",
    "{ }",
    "{ let r = 1; }",
    "q0();",
    "while false { }",
    "if c { 1 }",
    "x = 2;",
    "match i { _ => 1 }",
    "2",
];
/// block-carrying constructs (F4); □ is the body
const HOLDERS: &[&str] = &[
    "if c { □ }",
    "if c { 1 } else { □ }",
    "if c { □ } else { 1 }",
    "if c { □ } else if i > 2 { □ } else { □ }",
    "match i % 2 { 0 => { □ } _ => { 1 } }",
    "match i % 2 { 0 => { 1 } _ => { □ } }",
    "match i % 3 { 0 => { □ }, 1 => { □ }, _ => { □ } }",
    "while j < 1 { j = j + 1; □ }",
    "loop { □ break; }",
    "{ □ }",
    "fn() { □ }()",
    "let w = if c { □ } else { □ }",
];

const PRELUDE: &str ="let x = 1; let y = 2; let a = [1, 2, 3]; let g = fn(p) { p }; let g2 = fn(p, q) { q }; let g3 = fn(p, q, r) { r }; fn q0() { } fn q1() { return; } fn q2(n) { if n > 1 { return 1; } let u = 2; } let i = 0;\n";

#[derive(Clone)]
struct Case {
    family: &'static str,
    /// program text with N as the iteration bound placeholder
    text: String,
    /// operands pending at a jump (known-finding model): 0 = must be balanced
    pending: usize,
    looping: bool,
}

pub struct P07 {
    cases: Vec<Case>,
    tier: Tier,
}

fn pool_programs(tier: Tier) -> Vec<String> {
    let pool = crate::p02::pool();
    let mut v = vec![];
    for a in 0..pool.len() {
        v.push(program_src(&crate::progcmp::with_obs(vec![pool[a].clone()])));
        for b in 0..pool.len() {
            v.push(program_src(&crate::progcmp::with_obs(vec![pool[a].clone(), pool[b].clone()])));
            if tier == Tier::Thorough {
                for c in 0..pool.len() {
                    v.push(program_src(&crate::progcmp::with_obs(vec![pool[a].clone(), pool[b].clone(), pool[c].clone()])));
                }
            }
        }
    }
    v
}

impl P07 {
    pub fn new(tier: Tier) -> P07 {
        let mut cases = vec![];
        // F1: jump inside an operand position
        for (ctx, k) in CONTEXTS {
            for fill in FILLERS {
                for (pre, suf, jumps) in LOOPS {
                    for j in jumps.iter() {
                        let filled = fill.replace("J", &format!("{};", j));
                        let stmt = ctx.replace("□", &filled);
                        for pos in 0..3 {
                            let body = match pos {
                                0 => stmt.clone(),
                                1 => format!("x = x + 1; {}", stmt),
                                _ => format!("{} x = x + 1;", stmt),
                            };
                            cases.push(Case { family: "F1 jump-in-operand", text: format!("{}{}{}{}\nx;", PRELUDE, pre, body, suf), pending: *k, looping: true });
                        }
                    }
                }
            }
        }
        // F1x (thorough): two nested operand contexts around the jump; the pending operands add up
        if tier == Tier::Thorough {
            for (outer, k1) in CONTEXTS {
                for (inner, k2) in CONTEXTS {
                    if inner.starts_with("let ") {
                        continue; // not an expression
                    }
                    let inner_expr = format!("({})", inner.trim_end_matches(';'));
                    for fill in FILLERS {
                        for (pre, suf, jumps) in LOOPS {
                            for j in jumps.iter() {
                                let filled = fill.replace("J", &format!("{};", j));
                                let stmt = outer.replace("□", &inner_expr.replace("□", &filled));
                                cases.push(Case { family: "F1x jump-in-nested-operand", text: format!("{}{}{}{}\nx;", PRELUDE, pre, stmt, suf), pending: *k1 + *k2, looping: true });
                            }
                        }
                    }
                }
            }
        }
        // F3: looped expression statements
        for e in LOOPED {
            cases.push(Case { family: "F3 looped-statement", text: format!("{}while i < #N# {{ i = i + 1; {} }}\nx;", PRELUDE, e), pending: 0, looping: true });
            cases.push(Case { family: "F3 looped-statement-in-fn", text: format!("{}fn lp() {{ let i = 0; while i < #N# {{ i = i + 1; {} }} }} lp();\nx;", PRELUDE, e), pending: 0, looping: true });
        }
        // F4: block grammar — every body of <= 2 items (incl. empty and nested blocks) in every block-carrying
        // construct, as a statement with and without the terminating ';', at top level and inside a function
        let mut bodies: Vec<String> = vec![String::new()];
        for a in BODY_ITEMS {
            bodies.push(a.to_string());
            for b in BODY_ITEMS {
                bodies.push(format!("{} {}", a, b));
            }
        }
        for holder in HOLDERS {
            for body in &bodies {
                for term in ["", ";"] {
                    let stmt = format!("{}{}", holder.replace("□", body), term);
                    let lp = format!("while i < #N# {{ i = i + 1; let c = i % 2 == 0; let j = 0; {} }}", stmt);
                    cases.push(Case { family: "F4 block-grammar", text: format!("{}{}\nx;", PRELUDE, lp), pending: 0, looping: true });
                    cases.push(Case { family: "F4 block-grammar-in-fn", text: format!("{}fn lp() {{ let i = 0; {} }} lp();\nx;", PRELUDE, lp), pending: 0, looping: true });
                }
            }
        }
        // F2: statement sequences from the C02 pool (no jumps in operand positions)
        for t in pool_programs(tier) {
            cases.push(Case { family: "F2 pool-sequence", text: t, pending: 0, looping: false });
        }
        P07 { cases, tier }
    }
}

/// offsets in main's code at which each top-level statement of `src` ends (compile every prefix)
fn statement_boundaries(src: &str) -> Option<Vec<usize>> {
    let (prog, errs) = parse_only(src);
    if !errs.is_empty() {
        return None;
    }
    let n = prog.statements.len();
    let mut out = vec![];
    for k in 1..=n {
        let mut p = crate::parser::ast::Program::default();
        p.statements = prog.statements[..k].to_vec();
        let mut c = crate::compiler::Compiler::new();
        if c.compile(p).is_err() {
            return None;
        }
        out.push(c.bytecode().instructions.len());
    }
    Some(out)
}

impl Property for P07 {
    fn id(&self) -> &'static str {
        "C07"
    }
    fn len(&self) -> u64 {
        self.cases.len() as u64
    }
    fn describe(&self, idx: u64) -> Value {
        let c = &self.cases[idx as usize];
        json!({"family": c.family, "source": c.text.replace("#N#", "3"), "operands_pending_at_the_jump": c.pending})
    }
    fn run(&self, idx: u64) -> CaseOut {
        let c = &self.cases[idx as usize];
        let src = c.text.replace("#N#", "3");
        let class = format!("{} pending={}", c.family, c.pending);
        let r = guarded(|| {
            let bc = match front(&src) {
                Front::Compiled(bc) => bc,
                Front::CompileError(m, _) => return Ok((format!("compile-error"), 0, 0, 0)),
                // the block grammar also produces texts the parser rejects (e.g. an unterminated item before another)
                Front::ParseErrors(_) if c.family.starts_with("F4") || c.family.starts_with("F3") => return Ok((format!("compile-error"), 0, 0, 0)),
                Front::ParseErrors(e) => return Err(format!("harness program does not parse: {:?}\n{}", e, src)),
            };
            let mut funcs = functions_of(&bc);
            let ex = explore(&funcs);
            if let Some(e) = &ex.decode_error {
                return Err(format!("bytecode does not decode: {}", e));
            }
            let mut verdict: Option<String> = None;
            if let Some(cf) = &ex.conflict {
                verdict = Some(format!(
                    "CONFLICT {} {} {} {}",
                    funcs[cf.func].name, cf.ip, cf.h1, cf.h2
                ));
            } else if let Some((f, ip, h)) = ex.negative {
                verdict = Some(format!("NEGATIVE height {} after {} ip {}", h, funcs[f].name, ip));
            } else if !ex.bad_targets.is_empty() {
                verdict = Some(format!("JUMP into the middle of an instruction: {:?}", ex.bad_targets[0]));
            } else if let Some(b) = statement_boundaries(&src) {
                // I3: every top-level statement boundary has height 0
                for off in b {
                    if let Some(h) = ex.heights[0].get(&off) {
                        if *h != 0 {
                            verdict = Some(format!("BOUNDARY height {} at the end of a top-level statement (offset {})", h, off));
                            break;
                        }
                    }
                }
            }
            // bind the model to the VM: replay the concrete trace (3 iterations) on the explored graph
            let mut steps = 0;
            if verdict.is_none() {
                let mut vm = VM::new(bc);
                init_vars(&vm);
                vm.verif_trace = Some(Vec::new());
                let _ = vm.run();
                let trace = vm.verif_trace.take().unwrap();
                match validate_trace(&mut funcs, &ex, &trace) {
                    Ok(n) => steps = n,
                    Err(m) => {
                        // the VM does not follow the model: decide the property on the concrete trace itself.
                        // In the main frame (depth 1) every top-level statement boundary must see sp == 0 and
                        // every program point must be revisited at the height of its first visit.
                        let bounds = statement_boundaries(&src).unwrap_or_default();
                        let mut first: std::collections::BTreeMap<(usize, usize, usize), usize> = Default::default();
                        for (depth, ip, sp, bp, ptr) in &trace {
                            if *depth == 1 && bounds.contains(ip) && *sp != 0 {
                                return Ok((format!("CONCRETE sp={} at the end of a top-level statement (offset {}); model/VM mismatch: {}", sp, ip, m), ex.states, ex.transitions, 0));
                            }
                            let rel = *sp as i64 - *bp as i64;
                            let e = first.entry((*ptr, *bp, *ip)).or_insert(*sp);
                            if *e != *sp {
                                return Ok((format!("CONCRETE ip {} revisited at sp {} after sp {} (frame base {}, rel {}); model/VM mismatch: {}", ip, sp, e, bp, rel, m), ex.states, ex.transitions, 0));
                            }
                        }
                        return Err(format!("MACHINERY: the stack-effect model does not describe the VM although the concrete trace is balanced: {}\n{}", m, src));
                    }
                }
            }
            Ok((verdict.unwrap_or_default(), ex.states, ex.transitions, steps))
        });
        let (verdict, states, transitions, steps) = match r {
            Err(m) => return CaseOut::viol(format!("{} panic", class), format!("panicked: {}\n{}", m, src)),
            Ok(Err(m)) => return CaseOut::viol(format!("{} machinery", class), m),
            Ok(Ok(x)) => x,
        };
        if verdict == "compile-error" {
            return CaseOut::pass(format!("trivial {} does-not-compile", c.family));
        }
        if !verdict.is_empty() {
            // defect model of the known finding: a break/continue taken while k operands are pending
            // re-enters the loop (or leaves it) k slots higher — exactly k, at one program point
            if let Some(rest) = verdict.strip_prefix("CONFLICT ") {
                let parts: Vec<&str> = rest.split(' ').collect();
                let (h1, h2): (i64, i64) = (parts[2].parse().unwrap(), parts[3].parse().unwrap());
                if c.pending > 0 && h2 - h1 == c.pending as i64 {
                    return CaseOut {
                        class: format!("{} leak={}", class, c.pending),
                        verdict: known_or_violation("C07", "jump-with-pending-operands", format!("{} in\n{}", verdict, src)),
                        states,
                        transitions,
                        traces: 0,
                    };
                }
            }
            return CaseOut::viol(format!("{} unbalanced", class), format!("{} in\n{}", verdict, src)).with_counts(states, transitions, steps);
        }
        // balanced in the model and on the concrete trace: a long run must not overflow the stack
        let mut traces = 1;
        if c.looping {
            let n = self.tier.pick(5000, 12000);
            let long = c.text.replace("#N#", &n.to_string());
            match guarded(|| run_src(&long).outcome) {
                Err(m) => return CaseOut::viol(format!("{} panic", class), format!("panicked on the long run: {}", m)),
                Ok(Outcome::RtErr(m, _)) if m.contains("Stack overflow") => {
                    return CaseOut::viol(format!("{} overflow", class), format!("{} iterations end in 'Stack overflow!':\n{}", n, long))
                }
                _ => {}
            }
            traces += 1;
        }
        CaseOut::pass(class).with_counts(states, transitions, steps + traces)
    }
    fn rule(&self) -> String {
        format!("F1: {} statement contexts keeping 0-3 operands pending x {} jump-carrying fillers x 4 loop shapes (while, loop, two nested labelled loops) x every usable break/continue (plain and labelled) x 3 statement positions; F3: {} kinds of expression statements looped at top level and inside a function; F2: all sequences of <=2 (thorough 3) statements of the C02 pool; thorough adds F1x: every ordered pair of nested operand contexts around every filler, loop shape and jump (pending operands add up). Each program is compiled by the real compiler; the bytecode of main and of every function is explored as a graph over (function, ip, height) with both branch edges taken (fixpoint = every iteration count); invariants: one height per ip, height >= 0, jumps land on instruction boundaries, height 0 at every top-level statement boundary (offsets obtained by compiling each statement prefix). Every program is then executed on the real VM with the trace hook and each executed (code object, ip, sp) must equal the model's height; looping programs are re-run with {} iterations and must not report a stack overflow", CONTEXTS.len(), FILLERS.len(), LOOPED.len(), self.tier.pick(5000, 12000))
    }
    fn bounds(&self) -> Value {
        json!({"programs": self.cases.len(), "contexts": CONTEXTS.len(), "fillers": FILLERS.len(), "looped_statements": LOOPED.len()})
    }
    fn assumptions(&self) -> Vec<String> {
        vec!["the per-opcode stack-effect table (mc/src/bcmodel.rs) is validated against every concrete trace; a mismatch is reported as a machinery error, never as a verdict".into(),
             "statement and expression forms outside the enumerated contexts are not covered".into()]
    }
}
