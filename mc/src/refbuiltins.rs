//! Contracts of the pure builtins (C11), transcribed from docs/language/builtins.md and the
//! property statement. `call` returns the documented result, a runtime error, or Unspecified where
//! the documentation does not pin the result (then only "no crash, and if it fails the error names
//! the builtin" is demanded by the checks).

use crate::refval::*;

pub const PURE: &[&str] = &[
    "len", "first", "last", "rest", "push", "pop", "get", "contains", "insert", "str", "int", "float", "char", "byte",
    "tolower", "toupper", "sort", "chars", "join", "encode_utf8", "decode_utf8", "is_error", "round",
];

/// documented arities
pub fn arities(name: &str) -> &'static [usize] {
    match name {
        "len" | "first" | "last" | "rest" | "pop" | "str" | "int" | "float" | "char" | "byte" | "tolower"
        | "toupper" | "sort" | "chars" | "encode_utf8" | "decode_utf8" | "is_error" => &[1],
        "push" | "get" | "contains" | "round" => &[2],
        "insert" => &[3],
        "join" => &[1, 2],
        _ => &[],
    }
}

fn valid_key(v: &V) -> bool {
    // NaN is not equal to itself and therefore no key
    if let V::Float(f) = v {
        if f.is_nan() {
            return false;
        }
    }
    matches!(v, V::Str(_) | V::Char(_) | V::Byte(_) | V::Int(_) | V::Float(_) | V::Bool(_) | V::Null | V::Builtin(_) | V::Arr(_))
}

/// total order used by `sort` on mutually comparable values (C09 ordering); None = not comparable
pub fn cmp_vals(a: &V, b: &V) -> Option<std::cmp::Ordering> {
    match binop("<", a, b) {
        R::Ok(V::Bool(true)) => Some(std::cmp::Ordering::Less),
        R::Ok(V::Bool(false)) => match binop(">", a, b) {
            R::Ok(V::Bool(true)) => Some(std::cmp::Ordering::Greater),
            R::Ok(V::Bool(false)) => Some(std::cmp::Ordering::Equal),
            _ => None,
        },
        _ => None,
    }
}

pub fn call(name: &str, args: &[V]) -> R {
    if !arities(name).contains(&args.len()) {
        return R::Err;
    }
    let a0 = &args[0];
    match name {
        "len" => match a0 {
            V::Str(s) => R::Ok(V::Int(s.len() as i64)),
            V::Arr(a) => R::Ok(V::Int(a.borrow().len() as i64)),
            V::Map(m) => R::Ok(V::Int(m.borrow().len() as i64)),
            _ => R::Err,
        },
        "first" => match a0 {
            V::Arr(a) => R::Ok(a.borrow().first().cloned().unwrap_or(V::Null)),
            _ => R::Err,
        },
        "last" => match a0 {
            V::Arr(a) => R::Ok(a.borrow().last().cloned().unwrap_or(V::Null)),
            _ => R::Err,
        },
        "rest" => match a0 {
            V::Arr(a) => {
                let a = a.borrow();
                if a.is_empty() {
                    R::Ok(V::Null)
                } else {
                    R::Ok(arr(a[1..].to_vec()))
                }
            }
            _ => R::Err,
        },
        "push" => match a0 {
            V::Arr(a) => {
                // pushing a container into itself builds a self-containing value (excluded by C08)
                a.borrow_mut().push(args[1].clone());
                R::Ok(V::Null)
            }
            _ => R::Err,
        },
        "pop" => match a0 {
            V::Arr(a) => R::Ok(a.borrow_mut().pop().unwrap_or(V::Null)),
            _ => R::Err,
        },
        "get" => match a0 {
            V::Arr(a) => match &args[1] {
                V::Int(i) => {
                    let a = a.borrow();
                    if *i >= 0 && (*i as usize) < a.len() {
                        R::Ok(a[*i as usize].clone())
                    } else {
                        R::Ok(V::Null)
                    }
                }
                _ => R::Err,
            },
            V::Map(m) => {
                if matches!(&args[1], V::Float(f) if f.is_nan()) {
                    return R::Ok(V::Null); // a float is a key kind; NaN equals no key: a miss
                }
                if !valid_key(&args[1]) {
                    return R::Err; // the key kinds insert and indexing reject are rejected here as well
                }
                for (k, v) in m.borrow().iter() {
                    match eq(k, &args[1]) {
                        Some(true) => return R::Ok(v.clone()),
                        Some(false) => {}
                        None => return R::Unspecified("key equality not specified"),
                    }
                }
                R::Ok(V::Null)
            }
            _ => R::Err,
        },
        "contains" => match a0 {
            V::Map(m) => {
                if matches!(&args[1], V::Float(f) if f.is_nan()) {
                    return R::Ok(V::Bool(false)); // a float is a key kind; NaN equals no key: a miss
                }
                if !valid_key(&args[1]) {
                    return R::Err; // the key kinds insert and indexing reject are rejected here as well
                }
                for (k, _) in m.borrow().iter() {
                    match eq(k, &args[1]) {
                        Some(true) => return R::Ok(V::Bool(true)),
                        Some(false) => {}
                        None => return R::Unspecified("key equality not specified"),
                    }
                }
                R::Ok(V::Bool(false))
            }
            _ => R::Err,
        },
        "insert" => match a0 {
            V::Map(m) => {
                if !valid_key(&args[1]) {
                    // the key kinds a map literal rejects are rejected here as well (docs: data-model, valid keys)
                    return R::Err;
                }
                let mut mm = m.borrow_mut();
                for e in mm.iter_mut() {
                    match eq(&e.0, &args[1]) {
                        Some(true) => {
                            let old = e.1.clone();
                            e.1 = args[2].clone();
                            return R::Ok(old);
                        }
                        Some(false) => {}
                        None => return R::Unspecified("key equality not specified"),
                    }
                }
                mm.push((args[1].clone(), args[2].clone()));
                R::Ok(V::Null)
            }
            _ => R::Err,
        },
        "str" => match a0 {
            V::Str(_) => R::Ok(a0.clone()),
            V::Int(i) => R::Ok(V::Str(format!("{}", i))),
            V::Bool(b) => R::Ok(V::Str(format!("{}", b))),
            V::Null => R::Ok(V::Str("null".into())),
            V::Char(c) => R::Ok(V::Str(c.to_string())),
            // documented kinds whose textual form the docs do not pin: must succeed with *a* string
            V::Float(_) | V::Byte(_) | V::Arr(_) | V::Map(_) => R::Unspecified("str: documented kind, textual form not pinned (must return a string)"),
            // the documentation is silent about error objects; rendering them is not treated as a fault
            V::ErrObj => R::Unspecified("str of an error object"),
            _ => R::Err,
        },
        "int" => match a0 {
            V::Int(_) => R::Ok(a0.clone()),
            V::Str(s) => R::Ok(s.parse::<i64>().map(V::Int).unwrap_or(V::Null)),
            V::Float(f) => {
                if f.is_finite() && f.abs() < 9.2e18 {
                    R::Ok(V::Int(f.trunc() as i64))
                } else {
                    R::Unspecified("int of a float outside the i64 range")
                }
            }
            V::Char(c) => R::Ok(V::Int(*c as i64)),
            V::Byte(b) => R::Ok(V::Int(*b as i64)),
            V::Bool(b) => R::Ok(V::Int(*b as i64)),
            _ => R::Err,
        },
        "float" => match a0 {
            V::Float(_) => R::Ok(a0.clone()),
            V::Str(s) => R::Ok(s.parse::<f64>().map(V::Float).unwrap_or(V::Null)),
            V::Int(i) => R::Ok(V::Float(*i as f64)),
            V::Char(c) => R::Ok(V::Float(*c as u32 as f64)),
            V::Byte(b) => R::Ok(V::Float(*b as f64)),
            V::Bool(b) => R::Ok(V::Float(if *b { 1.0 } else { 0.0 })),
            _ => R::Err,
        },
        "char" => match a0 {
            V::Char(_) => R::Ok(a0.clone()),
            V::Byte(b) => R::Ok(V::Char(*b as char)),
            V::Int(i) => {
                if *i >= 0 && *i <= 0x10FFFF && !(0xD800..=0xDFFF).contains(i) {
                    R::Ok(V::Char(char::from_u32(*i as u32).unwrap()))
                } else {
                    // one rule for every integer: outside the Unicode scalar values there is no character
                    R::Ok(V::Null)
                }
            }
            V::Float(_) | V::Str(_) | V::Bool(_) => R::Unspecified("char: documented kind, result not pinned (must not be an error)"),
            _ => R::Err,
        },
        "byte" => match a0 {
            V::Byte(_) => R::Ok(a0.clone()),
            V::Int(i) => {
                if *i >= 0 && *i <= 255 {
                    R::Ok(V::Byte(*i as u8))
                } else {
                    // one rule for every integer: outside 0..=255 there is no byte
                    R::Ok(V::Null)
                }
            }
            V::Char(c) => {
                if (*c as u32) <= 255 {
                    R::Ok(V::Byte(*c as u32 as u8))
                } else {
                    R::Ok(V::Null) // one rule: outside 0..=255 there is no byte
                }
            }
            V::Bool(b) => R::Ok(V::Byte(*b as u8)),
            V::Float(_) | V::Str(_) => R::Unspecified("byte: documented kind, result not pinned (must not be an error)"),
            _ => R::Err,
        },
        "tolower" | "toupper" => {
            let lower = name == "tolower";
            match a0 {
                V::Char(c) => {
                    if c.is_ascii() {
                        R::Ok(V::Char(if lower { c.to_ascii_lowercase() } else { c.to_ascii_uppercase() }))
                    } else {
                        R::Unspecified("case conversion of a non-ASCII character")
                    }
                }
                V::Byte(b) => R::Ok(V::Byte(if lower { b.to_ascii_lowercase() } else { b.to_ascii_uppercase() })),
                V::Str(s) => {
                    if s.is_ascii() {
                        R::Ok(V::Str(if lower { s.to_ascii_lowercase() } else { s.to_ascii_uppercase() }))
                    } else {
                        R::Unspecified("case conversion of a non-ASCII string")
                    }
                }
                _ => R::Err,
            }
        }
        "sort" => match a0 {
            V::Arr(a) => {
                let mut v = a.borrow().clone();
                // mutually comparable?
                for i in 0..v.len() {
                    for j in 0..v.len() {
                        if cmp_vals(&v[i], &v[j]).is_none() {
                            return R::Unspecified("sort of values that are not mutually comparable");
                        }
                        if let V::Float(f) = &v[i] {
                            if f.is_nan() {
                                return R::Unspecified("sort of an array containing NaN");
                            }
                        }
                    }
                }
                // insertion sort with the reference ordering (stable)
                for i in 1..v.len() {
                    let mut j = i;
                    while j > 0 && cmp_vals(&v[j - 1], &v[j]) == Some(std::cmp::Ordering::Greater) {
                        v.swap(j - 1, j);
                        j -= 1;
                    }
                }
                *a.borrow_mut() = v;
                R::Ok(a0.clone())
            }
            _ => R::Err,
        },
        "chars" => match a0 {
            V::Str(s) => R::Ok(arr(s.chars().map(V::Char).collect())),
            _ => R::Err,
        },
        "join" => match a0 {
            V::Arr(a) => {
                let delim = if args.len() == 2 {
                    match &args[1] {
                        V::Str(s) => s.clone(),
                        V::Char(c) => c.to_string(),
                        _ => return R::Err,
                    }
                } else {
                    String::new()
                };
                let mut out = String::new();
                for (i, e) in a.borrow().iter().enumerate() {
                    match e {
                        V::Char(c) => {
                            if i > 0 {
                                out.push_str(&delim);
                            }
                            out.push(*c);
                        }
                        _ => return R::Err,
                    }
                }
                R::Ok(V::Str(out))
            }
            _ => R::Err,
        },
        "encode_utf8" => match a0 {
            V::Str(s) => R::Ok(arr(s.bytes().map(V::Byte).collect())),
            _ => R::Err,
        },
        "decode_utf8" => match a0 {
            V::Arr(a) => {
                let mut bytes = vec![];
                for e in a.borrow().iter() {
                    match e {
                        V::Byte(b) => bytes.push(*b),
                        _ => return R::Err,
                    }
                }
                match String::from_utf8(bytes) {
                    Ok(s) => R::Ok(V::Str(s)),
                    Err(_) => R::Ok(V::ErrObj),
                }
            }
            _ => R::Err,
        },
        "is_error" => R::Ok(V::Bool(matches!(a0, V::ErrObj))),
        "round" => match (a0, &args[1]) {
            (V::Float(f), V::Int(n)) => {
                // a finite float of this magnitude has no fractional digits: it is its own rounding
                if (0..=18).contains(n) && f.is_finite() && f.abs() >= 4503599627370496.0 {
                    return R::Ok(V::Float(*f));
                }
                if *n < 0 || *n > 18 || !f.is_finite() {
                    return R::Unspecified("round with a precision/magnitude the docs do not cover");
                }
                let m = 10f64.powi(*n as i32);
                if (f * m).abs() >= 4503599627370496.0 {
                    // scaling has used up the fractional bits: the answer is the double nearest to the
                    // exact decimal expansion of f rounded at n digits (std's formatting is exact)
                    return R::Ok(V::Float(format!("{:.*}", *n as usize, f).parse().unwrap()));
                }
                if *n > 15 || f.abs() > 1e15 {
                    return R::Unspecified("round with a precision/magnitude the docs do not cover");
                }
                R::Ok(V::Float((f * m).round() / m))
            }
            _ => R::Err,
        },
        _ => R::Unspecified("not a pure builtin"),
    }
}
