//! A model of the implementation's bytecode: per-opcode operand-stack effects and control flow,
//! explored as an explicit-state graph over (function, ip, height) with both branch edges taken
//! nondeterministically, and bound to the real VM by replaying concrete instruction traces
//! (verification hook) against the explored graph.

use crate::code::definitions::{lookup, read_operands, Instructions};
use crate::code::opcode::Opcode;
use crate::compiler::Bytecode;
use crate::object::Object;
use std::collections::{BTreeMap, BTreeSet, VecDeque};
use std::rc::Rc;

#[derive(Clone)]
pub struct Func {
    pub name: String,
    pub code: Rc<Instructions>,
    pub num_locals: usize,
    /// address of the code object as seen by the VM's trace hook (filled for constants; main is
    /// learnt from the first trace entry)
    pub code_ptr: usize,
}

pub fn functions_of(bc: &Bytecode) -> Vec<Func> {
    let mut v = vec![Func { name: "main".into(), code: Rc::new(bc.instructions.clone()), num_locals: 0, code_ptr: 0 }];
    for (i, c) in bc.constants.iter().enumerate() {
        if let Object::Func(f) = c.as_ref() {
            v.push(Func {
                name: format!("fn@const{}", i),
                code: f.instructions.clone(),
                num_locals: f.num_locals,
                code_ptr: Rc::as_ptr(&f.instructions) as usize,
            });
        }
    }
    for (i, f) in bc.filters.iter().enumerate() {
        v.push(Func { name: format!("filter{}", i), code: f.instructions.clone(), num_locals: f.num_locals, code_ptr: Rc::as_ptr(&f.instructions) as usize });
    }
    if let Some(f) = &bc.filter_end {
        v.push(Func { name: "filter-end".into(), code: f.instructions.clone(), num_locals: f.num_locals, code_ptr: Rc::as_ptr(&f.instructions) as usize });
    }
    v
}

#[derive(Debug, Clone)]
pub struct Ins {
    pub op: Opcode,
    pub operands: Vec<usize>,
    pub len: usize,
}

pub fn decode_at(code: &[u8], ip: usize) -> Result<Ins, String> {
    let def = lookup(code[ip])?;
    let op = Opcode::from(code[ip]);
    if op == Opcode::Invalid {
        return Err(format!("invalid opcode {} at {}", code[ip], ip));
    }
    let (operands, n) = read_operands(def, &code[ip + 1..]);
    Ok(Ins { op, operands, len: 1 + n })
}

/// operand-stack effect of an instruction: (delta on fall-through / jump edges, successor kind)
pub enum Next {
    Fall,
    Jump(usize),
    /// conditional: (target, fallthrough); same delta on both edges
    Branch(usize),
    End,
}
pub fn effect(i: &Ins) -> (i64, Next) {
    use Opcode::*;
    let o = |k: usize| i.operands[k] as i64;
    match i.op {
        Constant | True | False | Null | GetGlobal | GetLocal | GetBuiltinFn | GetBuiltinVar | GetFree | CurrClosure | Dup => (1, Next::Fall),
        Pop | Add | Sub | Mul | Div | Mod | Equal | NotEqual | Greater | GreaterEq | And | Or | Xor | ShiftLeft | ShiftRight
        | DefineGlobal | DefineLocal | GetIndex | SetProp => (-1, Next::Fall),
        Minus | Bang | Not | SetGlobal | SetLocal | SetFree | GetProp | Dollar => (0, Next::Fall),
        SetIndex => (-2, Next::Fall),
        Jump => (0, Next::Jump(i.operands[0])),
        JumpIfFalse => (-1, Next::Branch(i.operands[0])),
        JumpIfFalseNoPop => (0, Next::Branch(i.operands[0])),
        Array | Map => (1 - o(0), Next::Fall),
        Call => (-o(0), Next::Fall),
        Closure => (1 - o(1), Next::Fall),
        ReturnValue | Return => (0, Next::End),
        Invalid => (0, Next::End),
    }
}

#[derive(Debug, Clone)]
pub struct Conflict {
    pub func: usize,
    pub ip: usize,
    pub h1: i64,
    pub h2: i64,
    /// ip of the instruction whose edge brought the second height
    pub from_ip: usize,
}

pub struct Explored {
    /// per function: ip -> unique height (relative to the first free slot of the frame)
    pub heights: Vec<BTreeMap<usize, i64>>,
    pub states: u64,
    pub transitions: u64,
    pub conflict: Option<Conflict>,
    pub negative: Option<(usize, usize, i64)>,
    pub decode_error: Option<String>,
    /// jump targets that are not instruction boundaries
    pub bad_targets: Vec<(usize, usize, usize)>,
}

/// Explicit-state exploration of (function, ip, height); stops at the first ip reached with two heights.
pub fn explore(funcs: &[Func]) -> Explored {
    let mut ex = Explored { heights: vec![], states: 0, transitions: 0, conflict: None, negative: None, decode_error: None, bad_targets: vec![] };
    for (fi, f) in funcs.iter().enumerate() {
        let code = &f.code.code;
        // instruction boundaries by linear decoding
        let mut bounds = BTreeSet::new();
        let mut ip = 0;
        while ip < code.len() {
            bounds.insert(ip);
            match decode_at(code, ip) {
                Ok(i) => ip += i.len,
                Err(e) => {
                    ex.decode_error = Some(format!("{}: {}", f.name, e));
                    break;
                }
            }
        }
        bounds.insert(code.len());
        let mut h: BTreeMap<usize, i64> = BTreeMap::new();
        let mut q: VecDeque<(usize, i64, usize)> = VecDeque::new();
        q.push_back((0, 0, 0));
        while let Some((ip, height, from)) = q.pop_front() {
            if let Some(&old) = h.get(&ip) {
                if old != height && ex.conflict.is_none() {
                    ex.conflict = Some(Conflict { func: fi, ip, h1: old.min(height), h2: old.max(height), from_ip: from });
                }
                continue;
            }
            h.insert(ip, height);
            ex.states += 1;
            if ip >= code.len() {
                continue;
            }
            let ins = match decode_at(code, ip) {
                Ok(i) => i,
                Err(e) => {
                    ex.decode_error = Some(format!("{}: {}", f.name, e));
                    continue;
                }
            };
            let (d, next) = effect(&ins);
            let nh = height + d;
            if nh < 0 && ex.negative.is_none() {
                ex.negative = Some((fi, ip, nh));
            }
            let mut succ = vec![];
            match next {
                Next::Fall => succ.push(ip + ins.len),
                Next::Jump(t) => succ.push(t),
                Next::Branch(t) => {
                    succ.push(t);
                    succ.push(ip + ins.len);
                }
                Next::End => {}
            }
            for s in succ {
                ex.transitions += 1;
                if !bounds.contains(&s) {
                    ex.bad_targets.push((fi, ip, s));
                    continue;
                }
                q.push_back((s, nh, ip));
            }
        }
        ex.heights.push(h);
    }
    ex
}

/// Replay a concrete VM trace against the explored model. Returns Err(description) on the first
/// step the model does not contain (a machinery error: the model misrepresents the VM) or on an
/// observed stack pointer that differs from the model's height (a balance violation is reported by
/// the caller from the model; here equality of model and VM is what is checked).
pub fn validate_trace(funcs: &mut Vec<Func>, ex: &Explored, trace: &[(usize, usize, usize, usize, usize)]) -> Result<u64, String> {
    if trace.is_empty() {
        return Ok(0);
    }
    // main's code object is created by VM::new: learn its address from the first entry
    funcs[0].code_ptr = trace[0].4;
    let by_ptr: BTreeMap<usize, usize> = funcs.iter().enumerate().map(|(i, f)| (f.code_ptr, i)).collect();
    let mut steps = 0u64;
    for w in 0..trace.len() {
        let (depth, ip, sp, bp, ptr) = trace[w];
        let fi = match by_ptr.get(&ptr) {
            Some(f) => *f,
            None => return Err(format!("trace entry {} executes an unknown code object", w)),
        };
        let f = &funcs[fi];
        let base = if fi == 0 { 0 } else { bp + f.num_locals };
        let hm = match ex.heights[fi].get(&ip) {
            Some(h) => *h,
            None => return Err(format!("VM executed {} ip {} which the model never reaches", f.name, ip)),
        };
        if sp as i64 != base as i64 + hm {
            return Err(format!(
                "{} ip {}: VM sp {} (frame base {}) but the model height is {} (depth {})",
                f.name, ip, sp, base, hm, depth
            ));
        }
        // successor within the same activation must follow the operand widths of the definitions table
        if w + 1 < trace.len() {
            let (d2, ip2, _, _, ptr2) = trace[w + 1];
            if d2 == depth && ptr2 == ptr {
                let ins = decode_at(&f.code.code, ip).map_err(|e| e.to_string())?;
                let (_, next) = effect(&ins);
                let ok = match next {
                    Next::Fall => ip2 == ip + ins.len,
                    Next::Jump(t) => ip2 == t,
                    Next::Branch(t) => ip2 == t || ip2 == ip + ins.len,
                    Next::End => true,
                };
                if !ok && ins.op != Opcode::Call {
                    return Err(format!(
                        "{} ip {} ({:?} {:?}, {} bytes by the definitions table): VM continued at ip {}",
                        f.name, ip, ins.op, ins.operands, ins.len, ip2
                    ));
                }
            }
        }
        steps += 1;
    }
    Ok(steps)
}
