//! C18 — MAC, IPv4 and IPv6 address text converts losslessly and accepts the standard forms.

use crate::code::prop::PacketPropType as P;
use crate::fw::*;
use crate::object::Object;
use crate::pkt::*;
use crate::subject::*;
use serde_json::{json, Value};
use std::rc::Rc;

/// Ethernet / IPv4 / UDP and Ethernet / IPv6 / UDP frames
fn frame(v6: bool) -> Vec<u8> {
    let mut f: Vec<u8> = (0..14 + if v6 { 40 } else { 20 } + 8 + 4).map(pat).collect();
    if v6 {
        f[12] = 0x86;
        f[13] = 0xDD;
        f[14] = 0x60;
        f[14 + 6] = 17;
    } else {
        f[12] = 0x08;
        f[13] = 0x00;
        f[14] = 0x45;
        f[14 + 9] = 17;
    }
    f
}

#[derive(Clone, Copy, PartialEq)]
enum Kind {
    Mac,
    V4,
    V6,
}

fn ref_parse(kind: Kind, s: &str) -> Option<Vec<u8>> {
    match kind {
        Kind::Mac => {
            let parts: Vec<&str> = s.split(':').collect();
            if parts.len() != 6 {
                return None;
            }
            let mut v = vec![];
            for p in parts {
                if p.is_empty() || p.len() > 2 || !p.chars().all(|c| c.is_ascii_hexdigit()) {
                    return None;
                }
                v.push(u8::from_str_radix(p, 16).ok()?);
            }
            Some(v)
        }
        Kind::V4 => s.parse::<std::net::Ipv4Addr>().ok().map(|a| a.octets().to_vec()),
        Kind::V6 => {
            if s.contains('.') {
                return None;
            }
            s.parse::<std::net::Ipv6Addr>().ok().map(|a| a.octets().to_vec())
        }
    }
}

/// assign `text` to the address property; returns Ok(stored bytes, displayed text) or Err(runtime error message)
fn assign(vm: &crate::vm::interpreter::VM, dir: &std::path::Path, kind: Kind, dst: bool, text: &str) -> Result<Result<(Vec<u8>, String, bool), String>, String> {
    let v6 = kind == Kind::V6;
    let fr = frame(v6);
    let pkt = load_frames(dir, "adr", &[fr.clone()]).remove(0);
    let po: Rc<Object> = Rc::new(Object::Packet(pkt.clone()));
    let eth = vm.exec_prop_expr(po, P::Eth as u8, None, 1).map_err(|e| e.msg)?;
    let layer = match kind {
        Kind::Mac => eth,
        Kind::V4 => vm.exec_prop_expr(eth, P::Ipv4 as u8, None, 1).map_err(|e| e.msg)?,
        Kind::V6 => vm.exec_prop_expr(eth, P::Ipv6 as u8, None, 1).map_err(|e| e.msg)?,
    };
    let prop = if dst { P::Dst } else { P::Src };
    let before = serialize(&pkt);
    match vm.exec_prop_expr(layer.clone(), prop as u8, Some(Rc::new(Object::Str(text.to_string()))), 1) {
        Err(e) => {
            let unchanged = serialize(&pkt) == before;
            if !unchanged {
                return Ok(Err(format!("rejected ({}) but the frame changed", e.msg)));
            }
            Ok(Err(e.msg))
        }
        Ok(_) => {
            let after = serialize(&pkt);
            let (off, len) = match (kind, dst) {
                (Kind::Mac, true) => (0, 6),
                (Kind::Mac, false) => (6, 6),
                (Kind::V4, false) => (14 + 12, 4),
                (Kind::V4, true) => (14 + 16, 4),
                (Kind::V6, false) => (14 + 8, 16),
                (Kind::V6, true) => (14 + 24, 16),
            };
            let stored = after[16 + off..16 + off + len].to_vec();
            // nothing else may change
            let mut model = before.clone();
            model[16 + off..16 + off + len].copy_from_slice(&stored);
            let only_field = model == after;
            let shown = vm.exec_prop_expr(layer, prop as u8, None, 1).map_err(|e| e.msg)?;
            let shown = match shown.as_ref() {
                Object::Str(s) => s.clone(),
                o => canon(o),
            };
            Ok(Ok((stored, shown, only_field)))
        }
    }
}

fn v6_renderings(groups: &[u16; 8]) -> Vec<String> {
    let mut out = vec![];
    for upper in [false, true] {
        for lead in [false, true] {
            let g = |x: u16| -> String {
                let s = if lead { format!("{:04x}", x) } else { format!("{:x}", x) };
                if upper { s.to_uppercase() } else { s }
            };
            // uncompressed
            out.push(groups.iter().map(|x| g(*x)).collect::<Vec<_>>().join(":"));
            // every run of >= 1 zero groups, at every position, replaced by ::
            for start in 0..8 {
                for end in start + 1..=8 {
                    if groups[start..end].iter().all(|x| *x == 0) {
                        let left: Vec<String> = groups[..start].iter().map(|x| g(*x)).collect();
                        let right: Vec<String> = groups[end..].iter().map(|x| g(*x)).collect();
                        out.push(format!("{}::{}", left.join(":"), right.join(":")));
                    }
                }
            }
        }
    }
    out.sort();
    out.dedup();
    out
}

#[derive(Clone)]
enum Case {
    MacOctets(bool),
    V4Octets(bool),
    /// zero/non-zero pattern of the 8 groups
    V6Pattern(u8),
    Malformed(u8),
    /// thorough: groups 0..4 fixed by the index (base 3), groups 4..8 swept, each group from {0, 0x1, 0xabcd}
    V6Shapes(u8),
    /// thorough: all 65536 values of two adjacent octets (pair position, chunk of 16)
    MacPairs(u8, u8),
    V4Pairs(u8, u8),
}

pub struct P18 {
    cases: Vec<Case>,
}
impl P18 {
    pub fn new(tier: Tier) -> P18 {
        let mut cases = vec![Case::MacOctets(false), Case::MacOctets(true), Case::V4Octets(false), Case::V4Octets(true)];
        for p in 0..=255u8 {
            cases.push(Case::V6Pattern(p));
        }
        for k in 0..3u8 {
            cases.push(Case::Malformed(k));
        }
        if tier == Tier::Thorough {
            for k in 0..81u8 {
                cases.push(Case::V6Shapes(k));
            }
            for pos in 0..5u8 {
                for ch in 0..16u8 {
                    cases.push(Case::MacPairs(pos, ch));
                }
            }
            for pos in 0..3u8 {
                for ch in 0..16u8 {
                    cases.push(Case::V4Pairs(pos, ch));
                }
            }
        }
        P18 { cases }
    }
}

fn malformed_texts(kind: Kind) -> Vec<String> {
    let mut v: Vec<String> = vec![];
    match kind {
        Kind::Mac => {
            let good = ["02", "1a", "b", "00", "ff", "7"];
            let base = good.join(":");
            v.push(String::new());
            v.push(format!("{}:01", base));
            v.push(good[..5].join(":"));
            v.push(format!(":{}", base));
            v.push(format!("{}:", base));
            for i in 0..6 {
                for bad in ["100", "1g", "", "-1", "+1", " 1", "0x1", "fff"] {
                    let mut g: Vec<&str> = good.to_vec();
                    g[i] = bad;
                    v.push(g.join(":"));
                }
            }
            v.push(base.replace(':', "-"));
            v.push(base.replace(':', "::"));
        }
        Kind::V4 => {
            let good = ["10", "0", "255", "7"];
            v.push(String::new());
            v.push(format!("{}.1", good.join(".")));
            v.push(good[..3].join("."));
            v.push(format!(".{}", good.join(".")));
            v.push(format!("{}.", good.join(".")));
            for i in 0..4 {
                for bad in ["256", "999", "-1", "+1", "", "a", "1e1", " 1", "0x1", "1 "] {
                    let mut g: Vec<&str> = good.to_vec();
                    g[i] = bad;
                    v.push(g.join("."));
                }
            }
            v.push(good.join(":"));
        }
        Kind::V6 => {
            let full = "1:2:3:4:5:6:7:8";
            v.push(String::new());
            v.push(":".into());
            v.push(":::".into());
            v.push(format!("{}:9", full));
            v.push("1:2:3:4:5:6:7".into());
            v.push(format!(":{}", full));
            v.push(format!("{}:", full));
            v.push("1::2::3".into());
            v.push("::1::".into());
            v.push("1:::2".into());
            v.push("1:2:3:4:5:6:7::8:9".into());
            v.push("::1:2:3:4:5:6:7:8".into());
            v.push("1:2:3:4:5:6:7:8::".into());
            v.push(":1:2:3:4:5:6:7".into());
            v.push("1:2:3:4:5:6:7:".into());
            for i in 0..8 {
                for bad in ["12345", "g", "-1", "+1", " 1", "1 ", "0x1", "1.2"] {
                    let mut g: Vec<&str> = full.split(':').collect();
                    g[i] = bad;
                    v.push(g.join(":"));
                }
            }
            v.push("::g".into());
            v.push("12345::".into());
            v.push("1::12345".into());
        }
    }
    v
}

impl Property for P18 {
    fn id(&self) -> &'static str {
        "C18"
    }
    fn len(&self) -> u64 {
        self.cases.len() as u64
    }
    fn horizon_secs(&self) -> u64 {
        // one case sweeps ~18000 texts, each through two real pcap files
        240
    }
    fn describe(&self, idx: u64) -> Value {
        match &self.cases[idx as usize] {
            Case::MacOctets(d) => json!({"mac": "all 256 values of each octet x 3 backgrounds x upper/lower case x 1-2 digits", "property": if *d { "dst" } else { "src" }}),
            Case::V4Octets(d) => json!({"ipv4": "all 256 values of each octet x 3 backgrounds", "property": if *d { "dst" } else { "src" }}),
            Case::V6Pattern(p) => json!({"ipv6 zero/non-zero group pattern": format!("{:08b}", p), "renderings": "uncompressed and every legal :: placement, lower/upper case, with/without leading zeros"}),
            Case::Malformed(k) => json!({"malformed texts": (["mac", "ipv4", "ipv6"][*k as usize])}),
            Case::V6Shapes(k) => json!({"ipv6": "every address whose groups are drawn from {0, 0x1, 0xabcd}, every rendering", "first four groups (base-3 index)": k}),
            Case::MacPairs(pos, ch) => json!({"mac": "all 65536 values of two adjacent octets", "pair": pos, "chunk": ch}),
            Case::V4Pairs(pos, ch) => json!({"ipv4": "all 65536 values of two adjacent octets", "pair": pos, "chunk": ch}),
        }
    }
    fn run(&self, idx: u64) -> CaseOut {
        let dir = scratch_dir("c18");
        let vm = empty_vm();
        let case = self.cases[idx as usize].clone();
        let r = guarded(|| -> Result<(String, u64), String> {
            let mut n = 0u64;
            let mut accept = |kind: Kind, dst: bool, text: &str| -> Result<(), String> {
                let want = ref_parse(kind, text).ok_or_else(|| format!("MACHINERY: the reference parser rejects the well-formed text {:?}", text))?;
                match assign(&vm, &dir, kind, dst, text)? {
                    Err(m) => Err(format!("the standard form {:?} is rejected: {}", text, m)),
                    Ok((stored, shown, only)) => {
                        if stored != want {
                            return Err(format!("{:?} stores {:02x?} but denotes {:02x?}", text, stored, want));
                        }
                        if !only {
                            return Err(format!("assigning {:?} changed bytes outside the address field", text));
                        }
                        // the displayed text converts back to the same address
                        match ref_parse(kind, &shown) {
                            Some(b) if b == want => {}
                            _ => return Err(format!("after assigning {:?} the property displays {:?}, which does not denote the same address", text, shown)),
                        }
                        match assign(&vm, &dir, kind, dst, &shown)? {
                            Ok((s2, _, _)) if s2 == want => Ok(()),
                            Ok((s2, _, _)) => Err(format!("assigning the displayed text {:?} back stores {:02x?} instead of {:02x?}", shown, s2, want)),
                            Err(m) => Err(format!("the displayed text {:?} cannot be assigned back: {}", shown, m)),
                        }
                    }
                }
            };
            match case {
                Case::MacOctets(dst) => {
                    for bg in [0x00u8, 0xFF, 0x5A] {
                        for pos in 0..6 {
                            for val in 0..=255u8 {
                                let mut o = [bg; 6];
                                o[pos] = val;
                                for upper in [false, true] {
                                    for two in [false, true] {
                                        let t: Vec<String> = o.iter().map(|b| {
                                            let s = if two { format!("{:02x}", b) } else { format!("{:x}", b) };
                                            if upper { s.to_uppercase() } else { s }
                                        }).collect();
                                        accept(Kind::Mac, dst, &t.join(":"))?;
                                        n += 1;
                                    }
                                }
                            }
                        }
                    }
                    Ok(("mac".into(), n))
                }
                Case::V4Octets(dst) => {
                    for bg in [0u8, 255, 90] {
                        for pos in 0..4 {
                            for val in 0..=255u8 {
                                let mut o = [bg; 4];
                                o[pos] = val;
                                accept(Kind::V4, dst, &format!("{}.{}.{}.{}", o[0], o[1], o[2], o[3]))?;
                                n += 1;
                            }
                        }
                    }
                    Ok(("ipv4".into(), n))
                }
                Case::V6Pattern(p) => {
                    let nz = [0x2001u16, 0xdb8, 0xa, 0xffff, 0x100, 0xb0c, 0x1, 0xfe80];
                    let mut groups = [0u16; 8];
                    for i in 0..8 {
                        if p >> (7 - i) & 1 == 1 {
                            groups[i] = nz[i];
                        }
                    }
                    // keep going after a failure: different kinds of deviation must not mask each other
                    let mut kinds: std::collections::BTreeMap<String, String> = Default::default();
                    for (k, t) in v6_renderings(&groups).iter().enumerate() {
                        if let Err(m) = accept(Kind::V6, k % 2 == 1, t) {
                            let kind = if m.contains("is rejected") {
                                "rejected"
                            } else if m.contains("stores") {
                                "wrong-address"
                            } else if m.contains("outside") {
                                "outside-field"
                            } else {
                                "display"
                            };
                            kinds.entry(kind.to_string()).or_insert(m);
                        }
                        n += 1;
                    }
                    if !kinds.is_empty() {
                        return Err(format!("[{}] {}", kinds.keys().cloned().collect::<Vec<_>>().join("+"), kinds.values().cloned().collect::<Vec<_>>().join(" ;; ")));
                    }
                    Ok((format!("ipv6 zero-groups={}", 8 - p.count_ones()), n))
                }
                Case::V6Shapes(k) => {
                    let vals = [0u16, 0x1, 0xabcd];
                    let mut first: Option<String> = None;
                    for low in 0..81u32 {
                        let mut groups = [0u16; 8];
                        let (mut a, mut b) = (k as u32, low);
                        for i in 0..4 {
                            groups[i] = vals[(a % 3) as usize];
                            a /= 3;
                            groups[4 + i] = vals[(b % 3) as usize];
                            b /= 3;
                        }
                        for (j, t) in v6_renderings(&groups).iter().enumerate() {
                            if let Err(m) = accept(Kind::V6, j % 2 == 1, t) {
                                first.get_or_insert(m);
                            }
                            n += 1;
                        }
                    }
                    if let Some(m) = first {
                        return Err(m);
                    }
                    Ok(("ipv6 shapes".into(), n))
                }
                Case::MacPairs(pos, ch) => {
                    for hi in (ch as u32 * 16)..(ch as u32 * 16 + 16) {
                        for lo in 0..256u32 {
                            let mut o = [0x5Au8; 6];
                            o[pos as usize] = hi as u8;
                            o[pos as usize + 1] = lo as u8;
                            let t: Vec<String> = o.iter().map(|b| format!("{:02x}", b)).collect();
                            accept(Kind::Mac, false, &t.join(":"))?;
                            n += 1;
                        }
                    }
                    Ok(("mac pairs".into(), n))
                }
                Case::V4Pairs(pos, ch) => {
                    for hi in (ch as u32 * 16)..(ch as u32 * 16 + 16) {
                        for lo in 0..256u32 {
                            let mut o = [90u8; 4];
                            o[pos as usize] = hi as u8;
                            o[pos as usize + 1] = lo as u8;
                            accept(Kind::V4, true, &format!("{}.{}.{}.{}", o[0], o[1], o[2], o[3]))?;
                            n += 1;
                        }
                    }
                    Ok(("ipv4 pairs".into(), n))
                }
                Case::Malformed(k) => {
                    let kind = [Kind::Mac, Kind::V4, Kind::V6][k as usize];
                    for t in malformed_texts(kind) {
                        if ref_parse(kind, &t).is_some() {
                            continue; // only texts the reference parser rejects as well are demanded to fail
                        }
                        for dst in [false, true] {
                            match assign(&vm, &dir, kind, dst, &t)? {
                                Err(m) if m.contains("but the frame changed") => return Err(format!("malformed {:?}: {}", t, m)),
                                Err(_) => {}
                                Ok((stored, _, _)) => return Err(format!("the malformed text {:?} is accepted and stores {:02x?}", t, stored)),
                            }
                            n += 1;
                        }
                    }
                    Ok((format!("malformed {}", ["mac", "ipv4", "ipv6"][k as usize]), n))
                }
            }
        });
        match r {
            Err(m) => CaseOut::viol("panic", format!("panicked: {}", one_line(&m, 300))),
            Ok(Err(m)) => {
                let cls = match &self.cases[idx as usize] {
                    Case::MacOctets(_) => "mac",
                    Case::V4Octets(_) => "ipv4",
                    Case::V6Pattern(_) => "ipv6",
                    Case::Malformed(_) => "malformed",
                    Case::V6Shapes(_) => "ipv6",
                    Case::MacPairs(..) => "mac",
                    Case::V4Pairs(..) => "ipv4",
                };
                let kinds = if m.starts_with('[') { m.split(']').next().unwrap_or("").to_string() + "]" } else { String::new() };
                CaseOut::viol(format!("wrong {} {}", cls, kinds), m)
            }
            Ok(Ok((class, n))) => CaseOut::pass(class).with_counts(n, n, 2 * n),
        }
    }
    fn rule(&self) -> String {
        "MAC: all 256 values of each of the 6 octets (others 0x00 / 0xFF / 0x5A), lower and upper case, 1- and 2-digit groups, on eth.src and eth.dst; IPv4: all 256 values of each octet on 3 backgrounds; IPv6: all 2^8 zero/non-zero group patterns x every legal rendering (uncompressed; every run of >= 1 zero groups at every position replaced by '::', including leading, trailing and all-zero; lower/upper case; with/without leading zeros); each text is assigned through the real property setter on a packet obtained from the real parser: the stored bytes must equal the reference parser's (std::net / a 6-group hex parser), nothing outside the field may change, and the text the property then displays must denote and store the same address again; malformed texts (wrong group counts, second '::', ':::', stray leading/trailing colons, oversized or non-hex groups, empty text), emitted only if the reference parser rejects them too, must raise a runtime error and leave the frame unchanged; thorough adds every IPv6 address whose 8 groups are drawn from {0, 0x1, 0xabcd} (6561 addresses) in every rendering, and all 65536 values of every adjacent octet pair of a MAC (5 pairs) and of an IPv4 address (3 pairs)".into()
    }
    fn bounds(&self) -> Value {
        json!({"cases": self.cases.len()})
    }
    fn assumptions(&self) -> Vec<String> {
        vec!["std::net::{Ipv4Addr, Ipv6Addr} are the reference parsers; forms whose status differs between conventions (IPv4-mapped dotted tails, 3-digit MAC groups, leading zeros in IPv4 octets) are not generated".into()]
    }
}
