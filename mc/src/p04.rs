//! C04 — names resolve to the innermost visible binding and closures capture it.
//! Every scope skeleton (forest over definition / write / block / function / closure / returned-
//! closure / recursive-function nodes) up to a node and depth bound is turned into a program in which
//! every visible name is observed after every statement (family V), and into one ill-formed program
//! per position where a name is *not* visible (family I, expected: compile error).

use crate::ast::*;
use crate::fw::*;
use crate::progcmp::*;
use serde_json::{json, Value};
use std::rc::Rc;

#[derive(Clone, Copy, Debug, PartialEq)]
enum L {
    Dx,
    Dy,
    Wx,
    B,
    F,
    Fp,
    Cl,
    Ret,
    Rec,
    /// recursive function that recurses through a nested helper closure naming the enclosing function
    RecH,
}
const LABELS: &[L] = &[L::Dx, L::Dy, L::Wx, L::B, L::F, L::Fp, L::Cl, L::Ret, L::Rec, L::RecH];
const DEEP_LABELS: &[L] = &[L::Dx, L::Wx, L::B, L::Cl];
fn is_container(l: L) -> bool {
    !matches!(l, L::Dx | L::Dy | L::Wx)
}

#[derive(Clone, Debug)]
struct Node {
    l: L,
    kids: Vec<Node>,
}

/// all forests with exactly `n` nodes and nesting depth <= `d`
fn forests(labels: &[L], n: usize, d: usize, memo: &mut std::collections::HashMap<(usize, usize), Rc<Vec<Vec<Node>>>>) -> Rc<Vec<Vec<Node>>> {
    if let Some(v) = memo.get(&(n, d)) {
        return v.clone();
    }
    let mut out: Vec<Vec<Node>> = vec![];
    if n == 0 {
        out.push(vec![]);
    } else {
        // first tree has k nodes (1..=n), the rest is a forest with n-k nodes
        for k in 1..=n {
            let firsts = trees(labels, k, d, memo);
            let rests = forests(labels, n - k, d, memo);
            for f in firsts.iter() {
                for r in rests.iter() {
                    let mut v = vec![f.clone()];
                    v.extend(r.iter().cloned());
                    out.push(v);
                }
            }
        }
    }
    let rc = Rc::new(out);
    memo.insert((n, d), rc.clone());
    rc
}
fn trees(labels: &[L], n: usize, d: usize, memo: &mut std::collections::HashMap<(usize, usize), Rc<Vec<Vec<Node>>>>) -> Vec<Node> {
    let mut out = vec![];
    for &l in labels {
        if !is_container(l) {
            if n == 1 {
                out.push(Node { l, kids: vec![] });
            }
        } else if d >= 1 {
            let kids = forests(labels, n - 1, d - 1, memo);
            for k in kids.iter() {
                out.push(Node { l, kids: k.clone() });
            }
        }
    }
    out
}

struct Gen {
    next_const: i64,
    next_fn: usize,
    /// Some(k): insert an ill-placed use of an invisible name at the k-th opportunity
    bad_at: Option<usize>,
    bad_seen: usize,
}

impl Gen {
    fn uses(&mut self, scopes: &Vec<Vec<&'static str>>, out: &mut Vec<S>) {
        for n in ["x", "y"] {
            let vis = scopes.iter().any(|s| s.contains(&n));
            if vis {
                out.push(push_obs(var(n)));
            } else {
                if self.bad_at == Some(self.bad_seen) {
                    out.push(push_obs(var(n)));
                }
                self.bad_seen += 1;
            }
        }
    }
    fn forest(&mut self, f: &[Node], scopes: &mut Vec<Vec<&'static str>>, out: &mut Vec<S>) {
        // calls to functions defined in this container are repeated at its end ("called later")
        let mut later: Vec<S> = vec![];
        self.uses(scopes, out);
        for node in f {
            match node.l {
                L::Dx | L::Dy => {
                    let n = if node.l == L::Dx { "x" } else { "y" };
                    self.next_const += 1;
                    out.push(S::Let(n.into(), lit_i(self.next_const)));
                    scopes.last_mut().unwrap().push(n);
                }
                L::Wx => {
                    // a write to x; where x is not visible this makes the program ill-formed, which the
                    // reference checker classifies (kept on purpose: "uses are placed validly and invalidly")
                    out.push(S::Expr(assign(var("x"), bin("+", var("x"), lit_i(10)))));
                }
                L::B => {
                    let mut b = vec![];
                    scopes.push(vec![]);
                    self.forest(&node.kids, scopes, &mut b);
                    scopes.pop();
                    out.push(S::Block(b));
                }
                L::F | L::Fp | L::Cl | L::Rec | L::RecH => {
                    self.next_fn += 1;
                    let name = format!("f{}", self.next_fn);
                    let mut body = vec![];
                    let mut params = vec![];
                    scopes.push(vec![]);
                    if node.l == L::Fp {
                        params.push("x".to_string());
                        scopes.last_mut().unwrap().push("x");
                    }
                    if node.l == L::Rec || node.l == L::RecH {
                        params.push("n".to_string());
                    }
                    scopes.push(vec![]);
                    self.forest(&node.kids, scopes, &mut body);
                    scopes.pop();
                    scopes.pop();
                    let body = if node.l == L::Rec {
                        let mut inner = body;
                        inner.push(S::Expr(call(&name, vec![bin("-", var("n"), lit_i(1))])));
                        vec![S::Expr(E::If(Box::new(bin(">", var("n"), lit_i(0))), inner, None))]
                    } else if node.l == L::RecH {
                        // fK(n) { if n > 0 { ...; let h = fn(m) { push(obs, m); fK(m - 1) }; h(n); } }
                        let mut inner = body;
                        let h = format!("h{}", self.next_fn);
                        inner.push(S::Let(
                            h.clone(),
                            E::Fn(vec!["m".into()], Rc::new(vec![push_obs(var("m")), S::Expr(call(&name, vec![bin("-", var("m"), lit_i(1))]))])),
                        ));
                        inner.push(S::Expr(call(&h, vec![var("n")])));
                        vec![S::Expr(E::If(Box::new(bin(">", var("n"), lit_i(0))), inner, None))]
                    } else {
                        body
                    };
                    let args = match node.l {
                        L::Fp => vec![lit_i(70 + self.next_fn as i64)],
                        L::Rec | L::RecH => vec![lit_i(2)],
                        _ => vec![],
                    };
                    if node.l == L::Cl {
                        out.push(S::Let(name.clone(), E::Fn(params, Rc::new(body))));
                    } else {
                        out.push(S::FnStmt(name.clone(), params, Rc::new(body)));
                    }
                    out.push(S::Expr(call(&name, args.clone())));
                    later.push(S::Expr(call(&name, args)));
                }
                L::Ret => {
                    // let mkK = fn() { kids...; fn() { observe everything visible } }; let rK = mkK(); rK(); ... rK();
                    self.next_fn += 1;
                    let mk = format!("mk{}", self.next_fn);
                    let r = format!("r{}", self.next_fn);
                    let mut body = vec![];
                    scopes.push(vec![]);
                    scopes.push(vec![]);
                    self.forest(&node.kids, scopes, &mut body);
                    let mut inner = vec![];
                    scopes.push(vec![]);
                    scopes.push(vec![]);
                    self.uses(scopes, &mut inner);
                    // the returned closure also writes x if it can see it, so that "its own copy" is exercised
                    if scopes.iter().any(|s| s.contains(&"x")) {
                        inner.push(S::Expr(assign(var("x"), bin("+", var("x"), lit_i(100)))));
                        inner.push(push_obs(var("x")));
                    }
                    scopes.pop();
                    scopes.pop();
                    scopes.pop();
                    scopes.pop();
                    body.push(S::Expr(E::Fn(vec![], Rc::new(inner))));
                    out.push(S::Let(mk.clone(), E::Fn(vec![], Rc::new(body))));
                    out.push(S::Let(r.clone(), call(&mk, vec![])));
                    out.push(S::Expr(call(&r, vec![])));
                    later.push(S::Expr(call(&r, vec![])));
                }
            }
            self.uses(scopes, out);
        }
        if f.len() > 1 {
            out.extend(later);
            self.uses(scopes, out);
        }
    }
}

fn build(f: &[Node], bad_at: Option<usize>) -> (Vec<S>, usize) {
    let mut g = Gen { next_const: 0, next_fn: 0, bad_at, bad_seen: 0 };
    let mut scopes = vec![vec![]];
    let mut body = vec![];
    g.forest(f, &mut scopes, &mut body);
    body.push(S::Expr(call("len", vec![var("obs")])));
    (with_obs(body), g.bad_seen)
}

pub struct P04 {
    skeletons: Vec<Vec<Node>>,
    /// (skeleton index, bad position) for the ill-formed family
    bad: Vec<(u32, u32)>,
    nmax: usize,
    dmax: usize,
}
impl P04 {
    pub fn new(tier: Tier) -> P04 {
        let (nmax, dmax) = tier.pick((4, 3), (5, 3));
        let mut memo = std::collections::HashMap::new();
        let mut skeletons = vec![];
        for n in 1..=nmax {
            skeletons.extend(forests(LABELS, n, dmax, &mut memo).iter().cloned());
        }
        let n_wide = skeletons.len();
        // deep family: inside one function, forests over {let x, x = x + 10, block, closure} with more nodes
        // and deeper nesting (captured variables bound, written and read across block boundaries)
        let (n2, d2) = tier.pick((5, 4), (6, 5));
        let mut memo2 = std::collections::HashMap::new();
        for n in 2..=n2 {
            for f in forests(DEEP_LABELS, n, d2, &mut memo2).iter() {
                skeletons.push(vec![Node { l: L::F, kids: f.clone() }]);
            }
        }
        // ill-formed family: skeletons of up to nmax-1 nodes x every invisible-use position
        let mut bad = vec![];
        for (i, sk) in skeletons.iter().enumerate() {
            let nodes: usize = count(sk);
            if nodes > nmax - 1 || i >= n_wide {
                continue;
            }
            let (_, npos) = build(sk, None);
            for k in 0..npos {
                bad.push((i as u32, k as u32));
            }
        }
        P04 { skeletons, bad, nmax, dmax }
    }
    fn prog(&self, idx: u64) -> (&'static str, Vec<S>) {
        let n = self.skeletons.len() as u64;
        if idx < n {
            ("V", build(&self.skeletons[idx as usize], None).0)
        } else {
            let (i, k) = self.bad[(idx - n) as usize];
            ("I", build(&self.skeletons[i as usize], Some(k as usize)).0)
        }
    }
}
fn count(f: &[Node]) -> usize {
    f.iter().map(|n| 1 + count(&n.kids)).sum()
}

impl Property for P04 {
    fn id(&self) -> &'static str {
        "C04"
    }
    fn len(&self) -> u64 {
        (self.skeletons.len() + self.bad.len()) as u64
    }
    fn describe(&self, idx: u64) -> Value {
        let (fam, p) = self.prog(idx);
        json!({"family": fam, "source": program_src(&p)})
    }
    fn run(&self, idx: u64) -> CaseOut {
        let (fam, p) = self.prog(idx);
        compare_program(fam, &p)
    }
    fn rule(&self) -> String {
        format!("every scope skeleton (ordered forest) with <= {} nodes and nesting depth <= {} over the node kinds {:?} (let x / let y with a unique constant each, x = x + 10, block, function statement, function with parameter x, closure bound by let, closure returned from a function and called later, recursive function, recursive function recursing through a nested helper closure); family V observes every visible name after every statement, at the start and end of every container, inside every function body, and calls every function right after its definition and again at the end of the enclosing container; family I adds exactly one use of a name at one position where it is not visible (all positions, skeletons of <= {} nodes) and expects a compile error; a second, deeper family wraps every forest of 2..=5 (thorough 6) nodes and depth <= 4 (thorough 5) over {{let x, x = x + 10, block, closure}} in one function, so that captured variables are bound, written and read across block boundaries inside closures; oracle: RefEval's lexical resolver and capture-by-value-at-creation semantics", self.nmax, self.dmax, LABELS, self.nmax - 1)
    }
    fn bounds(&self) -> Value {
        json!({"max_nodes": self.nmax, "max_depth": self.dmax, "skeletons": self.skeletons.len(), "ill_formed_variants": self.bad.len()})
    }
    fn assumptions(&self) -> Vec<String> {
        vec!["RefEval (lexical scoping, globals by reference, capture by value at closure creation, writes to a captured variable stay in the closure) is the trusted reference".into(),
             "skeletons beyond the node/depth bound are not covered".into()]
    }
}
