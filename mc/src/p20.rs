//! C20 — filter mode end to end through the binary: streams x filter programs x -s, against an explicit
//! model of the mode (pre-statements once; per packet every filter in source order; end filter once).

use crate::fw::*;
use crate::pkt::*;
use crate::subject::*;
use serde_json::{json, Value};

const NF: usize = 17;
/// the filter alphabet; PRINT is println under -s and eprintln otherwise
const FILTERS: [&str; NF] = [
    "@ true",
    "@ false",
    "@ NP == 2",
    "@ NP % 2 == 1",
    "@ PL > 40",
    "@ WL == PL + 7",
    "@ TSS == 101",
    "@ TSU == 7",
    "@ ($1).type == 0x800",
    "@ { n = n + 1 }",
    "@ NP == 2 { ($1).src = \"02:00:00:00:00:aa\" }",
    "@ ($0).caplen > 0 { let l = NP; PRINT(\"{} {}\", l, n) }",
    "@ NP >= 2 { PRINT(\"{} {} {} {} {}\", NP, PL, WL, TSS, TSU) }",
    "@ ($1).src == \"02:00:00:00:00:AA\"",
    "@ { m = m + PL; ($1).type = 0x1234 }",
    "@ n > 1 { n = 0 }",
    // more locals than the program has globals, each read after the others were bound
    "@ PL > 0 { let a = WL - PL; let b = 14; let c = PL - b; let d = a + c; PRINT(\"{} {} {} {}\", a, b, c, d); m = m + d }",
];

#[derive(Clone)]
struct Ctx {
    np: i64,
    pl: i64,
    wl: i64,
    tss: i64,
    tsu: i64,
    data: Vec<u8>,
    n: i64,
    m: i64,
    out: String,
}
impl Ctx {
    fn etype(&self) -> u16 {
        u16::from_be_bytes([self.data[12], self.data[13]])
    }
}
fn pattern(f: usize, c: &Ctx) -> bool {
    match f {
        0 => true,
        1 => false,
        2 => c.np == 2,
        3 => c.np % 2 == 1,
        4 => c.pl > 40,
        5 => c.wl == c.pl + 7,
        6 => c.tss == 101,
        7 => c.tsu == 7,
        8 => c.etype() == 0x800,
        9 => true,
        10 => c.np == 2,
        11 => c.pl > 0,
        12 => c.np >= 2,
        13 => c.data[6..12] == [2, 0, 0, 0, 0, 0xaa],
        14 => true,
        15 => c.n > 1,
        16 => c.pl > 0,
        _ => unreachable!(),
    }
}
fn has_action(f: usize) -> bool {
    matches!(f, 9 | 10 | 11 | 12 | 14 | 15 | 16)
}
fn action(f: usize, c: &mut Ctx) {
    match f {
        9 => c.n += 1,
        10 => c.data[6..12].copy_from_slice(&[2, 0, 0, 0, 0, 0xaa]),
        11 => c.out.push_str(&format!("{} {}\n", c.np, c.n)),
        12 => c.out.push_str(&format!("{} {} {} {} {}\n", c.np, c.pl, c.wl, c.tss, c.tsu)),
        14 => {
            c.m += c.pl;
            c.data[12] = 0x12;
            c.data[13] = 0x34;
        }
        15 => c.n = 0,
        16 => {
            let (a, b) = (c.wl - c.pl, 14);
            let cc = c.pl - b;
            let d = a + cc;
            c.out.push_str(&format!("{} {} {} {}\n", a, b, cc, d));
            c.m += d;
        }
        _ => unreachable!(),
    }
}

fn frame(i: usize) -> Vec<u8> {
    let et: u16 = if i % 3 != 0 { 0x0800 } else { 0x0806 };
    let mut v = vec![2, 0, 0, 0, 0, i as u8, 2, 0, 0, 0, 1, i as u8, (et >> 8) as u8, et as u8];
    v.extend((0..20 + i * 3).map(|j| ((j * 7 + i) & 0xff) as u8));
    v
}
fn records(k: usize) -> Vec<Rec> {
    (1..=k)
        .map(|i| {
            let d = frame(i);
            Rec { sec: 100 + i as u32, usec: 5 + i as u32, wirelen: (d.len() + 7 * (i % 2)) as u32, data: d }
        })
        .collect()
}

#[derive(Clone, Copy, Debug)]
struct Hdr {
    magic: u32,
    snaplen: u32,
    linktype: u32,
    minor: u16,
    zone: i32,
    sigfigs: u32,
}
fn headers() -> Vec<Hdr> {
    let mut v = vec![];
    for magic in [MAGIC_US, MAGIC_NS] {
        // 40 and 43 are the captured lengths of packets 2 and 3: a packet cut at exactly the snap length
        for snaplen in [40, 43, 96, 65535, 262144] {
            for linktype in [1, 105] {
                for minor in [4, 3] {
                    v.push(Hdr { magic, snaplen, linktype, minor, zone: 0, sigfigs: 0 });
                }
            }
        }
    }
    v.push(Hdr { magic: MAGIC_US, snaplen: 65535, linktype: 1, minor: 4, zone: -3600, sigfigs: 6 });
    v
}
const DEFAULT_HDR: Hdr = Hdr { magic: MAGIC_US, snaplen: 65535, linktype: 1, minor: 4, zone: 0, sigfigs: 0 };

#[derive(Clone, Debug)]
struct Case {
    hdr: Hdr,
    k: usize,
    list: Vec<usize>,
    pre: usize, // 0: declarations only; 1: + PRINT("pre") and a trailing PRINT("post"); 2: + PRINT("pre") only
    end: bool,
    s: bool,
}

fn program(c: &Case) -> String {
    let mut p = String::from("let n = 0; let m = 0;\n");
    if c.pre >= 1 {
        p.push_str("PRINT(\"pre\");\n");
    }
    for f in &c.list {
        p.push_str(FILTERS[*f]);
        p.push('\n');
    }
    if c.end {
        p.push_str("@ end { PRINT(\"end {} {} {}\", NP, n, m) }\n");
    }
    if c.pre == 1 {
        p.push_str("n = n + 0; PRINT(\"post {}\", n);\n");
    }
    p.replace("PRINT", if c.s { "println" } else { "eprintln" })
}

/// the model of filter mode: (text printed, records written)
fn model(c: &Case) -> (String, Vec<Rec>) {
    let mut out = String::new();
    if c.pre >= 1 {
        out.push_str("pre\n");
    }
    if c.pre == 1 {
        out.push_str("post 0\n");
    }
    let (mut n, mut m) = (0i64, 0i64);
    let mut written = vec![];
    let recs = records(c.k);
    for (i, r) in recs.iter().enumerate() {
        let mut cx = Ctx { np: i as i64 + 1, pl: r.data.len() as i64, wl: r.wirelen as i64, tss: r.sec as i64, tsu: r.usec as i64, data: r.data.clone(), n, m, out: String::new() };
        for f in &c.list {
            if pattern(*f, &cx) {
                if has_action(*f) {
                    action(*f, &mut cx);
                } else {
                    written.push(Rec { sec: r.sec, usec: r.usec, wirelen: r.wirelen, data: cx.data.clone() });
                }
            }
        }
        n = cx.n;
        m = cx.m;
        out.push_str(&cx.out);
    }
    if c.end {
        out.push_str(&format!("end {} {} {}\n", c.k, n, m));
    }
    (out, written)
}

pub struct P20 {
    cases: Vec<Case>,
}

fn lists_upto(l: usize) -> Vec<Vec<usize>> {
    let mut v = vec![vec![]];
    let mut last = vec![vec![]];
    for _ in 0..l {
        let mut next = vec![];
        for p in &last {
            for f in 0..NF {
                let mut q: Vec<usize> = p.clone();
                q.push(f);
                next.push(q);
            }
        }
        v.extend(next.iter().cloned());
        last = next;
    }
    v
}

impl P20 {
    pub fn new(tier: Tier) -> P20 {
        let mut cases = vec![];
        // H: every header variant
        for h in headers() {
            for k in tier.pick(vec![0usize, 2], vec![0, 1, 2, 3]) {
                if records(k).iter().any(|r| r.data.len() as u32 > h.snaplen) {
                    continue; // a captured length above the snap length is not a valid stream
                }
                for list in [vec![0usize], vec![2], vec![10, 0]] {
                    for s in [false, true] {
                        cases.push(Case { hdr: h, k, list: list.clone(), pre: 0, end: false, s });
                    }
                }
            }
        }
        // L: every ordered filter list, three packets, pcap output
        for list in lists_upto(tier.pick(2, 3)) {
            if list.is_empty() {
                continue; // a program without filters is not in filter mode
            }
            for end in [false, true] {
                for s in tier.pick(vec![false], vec![false, true]) {
                    cases.push(Case { hdr: DEFAULT_HDR, k: 3, list: list.clone(), pre: 1, end, s });
                }
            }
        }
        // S: short lists x end x -s x stream length
        for list in lists_upto(tier.pick(1, 2)) {
            for end in [false, true] {
                if list.is_empty() && !end {
                    continue;
                }
                for s in [false, true] {
                    for k in tier.pick(0..=3usize, 0..=5) {
                        if k == 3 && !list.is_empty() && (!s || tier == Tier::Thorough) {
                            continue; // already in L
                        }
                        cases.push(Case { hdr: DEFAULT_HDR, k, list: list.clone(), pre: 1, end, s });
                    }
                }
            }
        }
        // P: preamble variants
        for pre in [0usize, 2] {
            for list in lists_upto(1) {
                if list.is_empty() {
                    continue;
                }
                for s in [false, true] {
                    cases.push(Case { hdr: DEFAULT_HDR, k: 2, list: list.clone(), pre, end: true, s });
                }
            }
        }
        P20 { cases }
    }
}

impl Property for P20 {
    fn id(&self) -> &'static str {
        "C20"
    }
    fn len(&self) -> u64 {
        self.cases.len() as u64
    }
    fn describe(&self, idx: u64) -> Value {
        let c = &self.cases[idx as usize];
        json!({"program": program(c), "packets": c.k, "header": format!("{:?}", c.hdr), "-s": c.s})
    }
    fn run(&self, idx: u64) -> CaseOut {
        let c = &self.cases[idx as usize];
        let h = c.hdr;
        let recs = records(c.k);
        let mut input = global_header(h.magic, 2, h.minor, h.zone, h.sigfigs, h.snaplen, h.linktype);
        for r in &recs {
            input.extend(record_bytes(r));
        }
        let prog = program(c);
        let dir = scratch_dir("c20");
        let script = dir.join(format!("p{}.p2", idx));
        std::fs::write(&script, &prog).unwrap();
        let sp = script.to_str().unwrap().to_string();
        let args: Vec<&str> = if c.s { vec!["-s", &sp] } else { vec![&sp] };
        let o = run_bin(&args, &input, &[], 20);
        let _ = std::fs::remove_file(&script);
        let what = format!("{} packet(s), {}program:\n{}", c.k, if c.s { "-s, " } else { "" }, prog);
        if o.crashed() {
            return CaseOut::viol("crash", format!("the interpreter crashed or hung: {} :: {}", one_line(&o.err_s(), 200), what));
        }
        let (text, written) = model(c);
        let mut exp_out = vec![];
        let (exp_stdout, exp_stderr): (Vec<u8>, String) = if c.s {
            (text.clone().into_bytes(), String::new())
        } else {
            exp_out.extend(global_header(h.magic, 2, h.minor, h.zone, h.sigfigs, h.snaplen, h.linktype));
            for r in &written {
                exp_out.extend(record_bytes(r));
            }
            (exp_out, text.clone())
        };
        if o.err_s() != exp_stderr {
            return CaseOut::viol(
                if c.s { "stderr under -s" } else { "printed text" },
                format!("stderr differs: got {:?}, the model says {:?} :: {}", one_line(&o.err_s(), 300), one_line(&exp_stderr, 300), what),
            );
        }
        if o.stdout != exp_stdout {
            if c.s {
                return CaseOut::viol("stdout under -s", format!("with -s stdout is {:?}, the program printed {:?} :: {}", one_line(&o.out_s(), 300), one_line(&text, 300), what));
            }
            let g = &o.stdout;
            if g.len() >= 24 && exp_stdout.len() >= 24 && g[..24] != exp_stdout[..24] {
                let fields = ["magic", "version", "version", "thiszone", "sigfigs", "snaplen", "linktype"];
                let offs = [0usize, 4, 6, 8, 12, 16, 20, 24];
                let diff: Vec<&str> = (0..7).filter(|i| g[offs[*i]..offs[*i + 1]] != exp_stdout[offs[*i]..offs[*i + 1]]).map(|i| fields[i]).collect();
                let rest_ok = g[24..] == exp_stdout[24..];
                return CaseOut::viol(
                    format!("output header {}", diff.join("+")),
                    format!("the output's global header differs from the input's in {:?} (output {:02x?}, input {:02x?}); records {} :: {}", diff, &g[..24], &exp_stdout[..24], if rest_ok { "as expected" } else { "also differ" }, what),
                );
            }
            // which record differs
            let mut off = 24;
            let mut i = 0;
            while off < g.len().min(exp_stdout.len()) && i < written.len() {
                let l = 16 + written[i].data.len();
                if off + l > g.len() || g[off..off + l] != exp_stdout[off..off + l] {
                    break;
                }
                off += l;
                i += 1;
            }
            return CaseOut::viol(
                "output records",
                format!("output pcap differs from the model at record #{} (output has {} bytes, model {} bytes = {} records) :: {}", i + 1, g.len(), exp_stdout.len(), written.len(), what),
            );
        }
        let class = format!("written={} s={} hdr={}", written.len().min(4), c.s, if h.snaplen == 65535 && h.linktype == 1 && h.minor == 4 && h.zone == 0 { "default" } else { "other" });
        CaseOut::pass(class).with_counts(1, (c.k * c.list.len()) as u64 + c.end as u64 + 1, 1)
    }
    fn rule(&self) -> String {
        format!("every run is the p2sh binary on a script file with a pcap stream on stdin. H: {} global headers (magic us/ns x snaplen 40/43 (= a captured length)/96/65535/262144 x linktype 1/105 x version 2.4/2.3, one with zone/sigfigs) x k packets x 3 programs x (-s | no -s); L: every ordered list of <= 2 (thorough 3) filters from the {}-filter alphabet {:?} x (end filter | none) on a 3-packet stream whose packets differ in length, wire length, timestamps and EtherType; S: lists of <= 1 (thorough 2) x end x -s x k in 0..=3 (thorough 0..=5); P: 3 preamble shapes (declarations only / print before the filters / statements before and after the filters). Oracle: an explicit model of the mode (non-filter statements once, in order, before any packet; per packet each filter in source order with NP/PL/WL/TSS/TSU of that record; an action-less true filter appends the packet as modified so far; the end action once with NP = k): stderr (or stdout under -s) must equal the model's text exactly; stdout without -s must equal the input's 24-byte global header followed by the model's records byte for byte", headers().len(), NF, FILTERS)
    }
    fn bounds(&self) -> Value {
        json!({"binary_runs": self.cases.len(), "filter_alphabet": NF})
    }
    fn assumptions(&self) -> Vec<String> {
        vec![
            "patterns and actions are closed-form so that the harness can evaluate them itself; the expression language at large is C02-C13's".into(),
            "printing to stdout without -s (which would interleave text with the pcap stream) is not generated".into(),
        ]
    }
    fn horizon_secs(&self) -> u64 {
        60
    }
}
