//! C24 — script mode, command mode and shebang scripts run a program the same way, with the stated argv.
//! Exhaustive grid programs x argument vectors x invocation modes through the binary; the oracle is
//! differential between the modes plus the explicit argv/echo rules of the statement.

use crate::fw::*;
use crate::subject::*;
use serde_json::{json, Value};

/// prints one line per argv element, then the count
/// (wrapped in a function called from a let so that it contributes no top-level expression statement)
const DUMP: &str = "fn dump_() { let i_ = 0; while i_ < len(argv) { println(\"[{}]\", argv[i_]); i_ = i_ + 1; } println(\"n={}\", len(argv)); } let d_ = dump_();";

/// (program text after the argv dump, a quiet expression equal to the final expression statement's value
///  when the program ends with an expression statement that is reached)
const PROGS: &[(&str, Option<&str>)] = &[
    ("println(\"a\"); println(\"{}\", 1 + 2)", Some("2")),
    ("println(\"a\"); null", None),
    ("let x = 5; x * 2", Some("10")),
    ("println(\"before\"); 1 / 0; println(\"after\")", None), // runtime error after output
    ("let y = ", None),                                        // parse error
    ("println(\"a\"); nosuch", None),                          // compile error
    ("println(\"x\"); exit(3)", None),
    ("eprintln(\"err\"); println(\"out\"); null", None),
    ("let s = 0;\nlet i = 0;\nwhile i < 3 {\n  i = i + 1;\n  s = s + i;\n}\nprintln(\"{}\", s);\n[1][s];", None), // multi-line, fails on its last line
    ("let x = 5", None),
    ("fn f() { 3 }", None),
    ("let i = 0; while i < 2 { i = i + 1; }", None),
    ("\"str\"", Some("\"str\"")),
    ("[1, \"a\", 2.5]", Some("[1, \"a\", 2.5]")),
    ("0", Some("0")),
    ("false", Some("false")),
    ("\"\"", Some("\"\"")),
    ("[]", Some("[]")),
    ("if true { 4 }", Some("4")),
    ("let z = 3; z = z + 1", Some("4")),
    ("let q = 1; q;", Some("1")),
];

/// program texts that start with '-' (text, what -c echoes)
const DASH_TEXTS: &[(&str, &str)] = &[("-1 + 2", "1\n"), ("-puts(3)", ""), ("--1", "1\n"), ("-(2) * 3;", "-6\n"), ("- 1; println(\"x\"); null", "")];

fn argvs() -> Vec<Vec<String>> {
    let s = |v: &[&str]| v.iter().map(|x| x.to_string()).collect::<Vec<_>>();
    vec![
        s(&[]),
        s(&["a"]),
        s(&["ü", "b c"]),
        s(&["--", "-x", "--y"]),
        s(&["a", "--", "-s"]),
        (0..40).map(|i| format!("arg{}", i)).collect(),
        s(&["--", "-x", "--", "y"]),
        s(&["--", "-c", "1"]),
        s(&["", "x"]),
    ]
}
/// what the program must see of an argument vector: the first "--" only separates
fn positional(v: &[String]) -> Vec<String> {
    let mut out = vec![];
    let mut seen = false;
    for a in v {
        if a == "--" && !seen {
            seen = true;
            continue;
        }
        out.push(a.clone());
    }
    out
}

const MODES: [&str; 4] = ["file", "-c", "shebang-file", "shebang-exec"];

pub struct P24 {
    n_argv: usize,
}
impl P24 {
    pub fn new(_tier: Tier) -> P24 {
        P24 { n_argv: argvs().len() }
    }
}

fn dump_of(args: &[String]) -> String {
    let mut s = String::new();
    for a in args {
        s.push_str(&format!("[{}]\n", a));
    }
    s.push_str(&format!("n={}\n", args.len()));
    s
}
fn shift_lines(stderr: &str, by: i64) -> String {
    // "[line N]" -> "[line N+by]"
    let mut out = String::new();
    let mut rest = stderr;
    while let Some(p) = rest.find("[line ") {
        out.push_str(&rest[..p + 6]);
        rest = &rest[p + 6..];
        let digits: String = rest.chars().take_while(|c| c.is_ascii_digit()).collect();
        if let Ok(n) = digits.parse::<i64>() {
            out.push_str(&format!("{}", n + by));
        } else {
            out.push_str(&digits);
        }
        rest = &rest[digits.len()..];
    }
    out.push_str(rest);
    out
}

impl Property for P24 {
    fn id(&self) -> &'static str {
        "C24"
    }
    fn len(&self) -> u64 {
        (PROGS.len() * self.n_argv) as u64 + 1 + DASH_TEXTS.len() as u64
    }
    fn describe(&self, idx: u64) -> Value {
        if idx as usize > PROGS.len() * self.n_argv {
            return json!({"program text starting with '-', as a file and with -c": DASH_TEXTS[idx as usize - PROGS.len() * self.n_argv - 1]});
        }
        if idx as usize == PROGS.len() * self.n_argv {
            return json!({"REPL": "argv; len(argv)"});
        }
        let (p, a) = (idx as usize / self.n_argv, idx as usize % self.n_argv);
        json!({"program": PROGS[p].0, "arguments": argvs()[a], "modes": MODES})
    }
    fn run(&self, idx: u64) -> CaseOut {
        if idx as usize > PROGS.len() * self.n_argv {
            // the whole program text begins with '-': the command-line parser must not take it for an option
            let (text, echo) = DASH_TEXTS[idx as usize - PROGS.len() * self.n_argv - 1];
            let dir = scratch_dir("c24");
            let path = dir.join(format!("d{}.p2", idx));
            std::fs::write(&path, text).unwrap();
            let f = run_bin(&[path.to_str().unwrap()], b"", &[], 20);
            let c = run_bin(&["-c", text], b"", &[], 20);
            let _ = std::fs::remove_file(&path);
            if f.crashed() || c.crashed() {
                return CaseOut::viol("crash dash-text", format!("crash on the program text {:?}", text));
            }
            let want = format!("{}{}", f.out_s(), echo);
            if c.out_s() != want || c.err_s() != f.err_s() || c.status != f.status {
                return CaseOut::viol("-c text starting with '-'", format!("the program text {:?}: file mode prints {:?} / {:?} (status {:?}); -c prints {:?} / {:?} (status {:?}), expected stdout {:?}", text, one_line(&f.out_s(), 100), one_line(&f.err_s(), 100), f.status, one_line(&c.out_s(), 100), one_line(&c.err_s(), 200), c.status, want));
            }
            return CaseOut::pass("dash-text");
        }
        if idx as usize == PROGS.len() * self.n_argv {
            let o = run_bin(&[], b"println(\"{}\", len(argv));\nargv\n", &[("P2SH_VERIF_REPL_STDIN", "1")], 20);
            let out = o.out_s();
            let body: Vec<&str> = out.lines().skip(2).collect();
            // println returns its byte count, which the REPL echoes
            if o.crashed() || body.len() < 3 || body[0] != "0" || body[2] != "[]" {
                return CaseOut::viol("repl argv", format!("in the REPL argv is not empty: {:?} / {:?}", one_line(&out, 200), one_line(&o.err_s(), 200)));
            }
            return CaseOut::pass("repl argv empty");
        }
        let (pi, ai) = (idx as usize / self.n_argv, idx as usize % self.n_argv);
        let (ptext, final_expr) = PROGS[pi];
        let args = argvs()[ai].clone();
        let text = format!("{}\n{}\n", DUMP, ptext);
        let dir = scratch_dir("c24");
        let plain = dir.join(format!("s{}.p2", idx));
        let sheb = dir.join(format!("h{}.p2", idx));
        std::fs::write(&plain, &text).unwrap();
        std::fs::write(&sheb, format!("#!{}\n{}", bin_path(), text)).unwrap();
        {
            use std::os::unix::fs::PermissionsExt;
            std::fs::set_permissions(&sheb, std::fs::Permissions::from_mode(0o755)).unwrap();
        }
        let plain_s = plain.to_str().unwrap().to_string();
        let sheb_s = sheb.to_str().unwrap().to_string();
        let argrefs: Vec<&str> = args.iter().map(|s| s.as_str()).collect();
        let run = |mode: &str| -> BinOut {
            match mode {
                "file" => {
                    let mut v = vec![plain_s.as_str()];
                    v.extend(&argrefs);
                    run_bin(&v, b"", &[], 20)
                }
                "-c" => {
                    let mut v = vec!["-c", text.as_str()];
                    v.extend(&argrefs);
                    run_bin(&v, b"", &[], 20)
                }
                "shebang-file" => {
                    let mut v = vec![sheb_s.as_str()];
                    v.extend(&argrefs);
                    run_bin(&v, b"", &[], 20)
                }
                _ => run_prog(&sheb_s, &argrefs, b"", &[], 20, None),
            }
        };
        let outs: Vec<BinOut> = MODES.iter().map(|m| run(m)).collect();
        let _ = std::fs::remove_file(&plain);
        let _ = std::fs::remove_file(&sheb);
        let what = format!("program {:?} with arguments {:?}", ptext, args);
        for (m, o) in MODES.iter().zip(&outs) {
            if o.crashed() {
                return CaseOut::viol(format!("crash {}", m), format!("{} mode crashed or hung: {} :: {}", m, one_line(&o.err_s(), 200), what));
            }
        }
        let pos = positional(&args);
        let base = &outs[0];
        let compiles = !matches!(front(&text), Front::ParseErrors(_) | Front::CompileError(..));
        // 1. argv in script mode: path + remaining arguments
        let mut file_argv = vec![plain_s.clone()];
        file_argv.extend(pos.clone());
        let file_dump = dump_of(&file_argv);
        if compiles && !base.out_s().starts_with(&file_dump) {
            return CaseOut::viol("argv file", format!("script mode: argv should be {:?}; the program printed {:?} :: {}", file_argv, one_line(&base.out_s(), 300), what));
        }
        let base_rest = if compiles { base.out_s()[file_dump.len()..].to_string() } else { base.out_s() };
        // 2. shebang scripts run the same (path text and the one extra line aside)
        for k in [2usize, 3] {
            let o = &outs[k];
            let exp_out = base.out_s().replace(&plain_s, &sheb_s);
            let exp_err = shift_lines(&base.err_s(), 1).replace(&plain_s, &sheb_s);
            if o.out_s() != exp_out || o.err_s() != exp_err || o.status != base.status {
                return CaseOut::viol(
                    format!("{} differs", MODES[k]),
                    format!("{} vs plain script: stdout {:?} vs {:?}; stderr {:?} vs {:?}; status {:?} vs {:?} :: {}", MODES[k], one_line(&o.out_s(), 200), one_line(&exp_out, 200), one_line(&o.err_s(), 200), one_line(&exp_err, 200), o.status, base.status, what),
                );
            }
        }
        // 3. command mode: argv = the positional arguments; same output; plus the final expression value
        let c = &outs[1];
        let c_dump = dump_of(&pos);
        if compiles && !c.out_s().starts_with(&c_dump) {
            return CaseOut::viol("argv -c", format!("-c mode: argv should be {:?}; the program printed {:?} :: {}", pos, one_line(&c.out_s(), 300), what));
        }
        let c_rest = if compiles { c.out_s()[c_dump.len()..].to_string() } else { c.out_s() };
        let echo = match final_expr {
            Some(e) => {
                let r = run_src(e);
                let mut vm = r.vm.expect("quiet expression runs");
                let v = vm.last_popped();
                if matches!(v.as_ref(), crate::object::Object::Null) {
                    String::new()
                } else {
                    format!("{}\n", v)
                }
            }
            None => String::new(),
        };
        let exp_c = format!("{}{}", base_rest, echo);
        if c_rest != exp_c {
            let class = if final_expr.is_some() { "-c echo of the final expression" } else { "-c prints more than the script" };
            return CaseOut::viol(class, format!("-c mode printed {:?}; the script prints {:?} and the final expression statement's value is {:?} :: {}", one_line(&c_rest, 200), one_line(&base_rest, 200), one_line(&echo, 100), what));
        }
        if c.err_s() != base.err_s() || c.status != base.status {
            return CaseOut::viol("-c stderr/status", format!("-c mode: stderr {:?} status {:?}; script: {:?} {:?} :: {}", one_line(&c.err_s(), 200), c.status, one_line(&base.err_s(), 200), base.status, what));
        }
        let class = format!("{} echo={} status={:?}", if compiles { "runs" } else { "rejected" }, !echo.is_empty(), base.status);
        CaseOut::pass(class).with_counts(4, 4, 4)
    }
    fn rule(&self) -> String {
        format!("{} programs (printing, final expression statement null / non-null of every value kind incl. falsey ones, final let / fn / loop statement, runtime error after output, parse error, compile error, exit(3), stderr output, multi-line) each preceded by an argv dump x {} argument vectors {:?} x 4 invocation modes {:?} through the binary, plus the REPL. Oracle: script mode argv = [path] + arguments (the first -- only separates); a script with a #! first line (run as an argument and executed directly) gives the same stdout, stderr (line numbers + 1) and exit status; -c gives argv = the positional arguments, the same stdout followed by the display text of the final expression statement's value when the program ends with an expression statement that was reached and whose value is not null, and the same stderr and status; in the REPL argv is empty; program texts that begin with '-' run the same from a file and with -c", PROGS.len(), argvs().len(), argvs().iter().map(|v| if v.len() > 5 { vec!["<40 arguments>".to_string()] } else { v.clone() }).collect::<Vec<_>>(), MODES)
    }
    fn bounds(&self) -> Value {
        json!({"programs": PROGS.len(), "argument_vectors": self.n_argv, "modes": 4, "binary_runs": PROGS.len() * self.n_argv * 4 + 1})
    }
    fn assumptions(&self) -> Vec<String> {
        vec![
            "programs whose last statement is not an expression statement contain no top-level expression statement at all, so 'the final expression statement' has no value under any reading".into(),
            "dash-prefixed arguments without a preceding -- are clap usage errors in every mode and not generated".into(),
        ]
    }
    fn horizon_secs(&self) -> u64 {
        60
    }
}
