//! C21 — file reads return the file's bytes exactly once, in order, however chunked.
//! Files: BFS over read-call sequences against content + cursor (canonical state = cursor).
//! Pipes: the same call sequences on a FIFO (in-process, real `open`) and on stdin (binary), fed by a
//! feeder that owns the chunk schedule: chunk j+1 is written only when the pipe is empty, so the
//! sequence of short reads is a function of the enumerated chunking alone.
//! Writes: mode x target x write sequences x ending; resulting file content against the mode rules.

use crate::fw::*;
use crate::object::Object;
use crate::subject::*;
use serde_json::{json, Value};
use std::collections::{BTreeSet, VecDeque};
use std::io::Write;
use std::os::unix::io::AsRawFd;
use std::rc::Rc;

const SIZES: &[usize] = &[0, 1, 4095, 4096, 4097, 8191, 8192, 8193, 12289, 20000];

#[derive(Clone, Copy, Debug, PartialEq, Eq, PartialOrd, Ord)]
enum Op {
    Read,
    ReadN(usize),
    Line,
    ToString,
}
const OPS: &[Op] = &[Op::Read, Op::ReadN(0), Op::ReadN(1), Op::ReadN(4095), Op::ReadN(4096), Op::ReadN(4097), Op::ReadN(8192), Op::ReadN(10000), Op::Line, Op::ToString];

fn content(size: usize, utf8: bool) -> Vec<u8> {
    if !utf8 {
        let mut v: Vec<u8> = (0..size).map(|i| (i % 251) as u8).map(|b| if b == b'\n' { 0x0B } else { b }).collect();
        for nl in [0usize, 4095, 4096, 8191, 8192] {
            if nl < size && nl + 1 != size {
                v[nl] = b'\n';
            }
        }
        v
    } else {
        // multi-byte characters straddle 4096 and 8192; lines of varying length
        let mut s = String::new();
        let units = ["a", "é", "€", "𝄞", "b\n", "ü", "x"];
        let mut i = 0;
        while s.len() < size {
            s.push_str(units[i % units.len()]);
            i += 1;
        }
        while s.len() > size {
            s.pop();
        }
        while s.len() < size {
            s.push('z');
        }
        s.into_bytes()
    }
}

fn int(i: i64) -> Rc<Object> {
    Rc::new(Object::Integer(i))
}
fn st(s: &str) -> Rc<Object> {
    Rc::new(Object::Str(s.to_string()))
}

/// result of a read call as bytes, or a description of a non-data result
fn call(f: &Rc<Object>, op: Op) -> Result<Result<Vec<u8>, String>, String> {
    let r = match op {
        Op::Read => (builtin("read"))(vec![f.clone()]),
        Op::ReadN(n) => (builtin("read"))(vec![f.clone(), int(n as i64)]),
        Op::Line => (builtin("read_line"))(vec![f.clone()]),
        Op::ToString => (builtin("read_to_string"))(vec![f.clone()]),
    }?;
    Ok(match r.as_ref() {
        Object::Arr(a) => Ok(a.elements.borrow().iter().map(|b| if let Object::Byte(x) = b.as_ref() { *x } else { 0 }).collect()),
        Object::Str(s) => Ok(s.as_bytes().to_vec()),
        Object::Err(_) => Err("error object".into()),
        o => Err(canon(o)),
    })
}

fn model(c: &[u8], cur: &mut usize, op: Op) -> Vec<u8> {
    let rest = &c[*cur..];
    let n = match op {
        Op::Read | Op::ToString => rest.len(),
        Op::ReadN(n) => n.min(rest.len()),
        Op::Line => rest.iter().position(|b| *b == b'\n').map(|p| p + 1).unwrap_or(rest.len()),
    };
    let out = rest[..n].to_vec();
    *cur += n;
    out
}

fn applicable(c: &[u8], cur: usize, op: Op) -> bool {
    match op {
        // string-returning calls are only issued where the data they would return is valid UTF-8
        Op::Line | Op::ToString => {
            let mut k = cur;
            std::str::from_utf8(&model(c, &mut k, op)).is_ok()
        }
        _ => true,
    }
}

/// compositions of `len` into <= 3 chunks with sizes from the menu (the last chunk takes the rest)
fn chunkings(len: usize) -> Vec<Vec<usize>> {
    let menu = [1usize, 100, 4096, 4097, 8192];
    let mut out: Vec<Vec<usize>> = vec![vec![len]];
    for a in menu {
        if a < len {
            out.push(vec![a, len - a]);
            for b in menu {
                if a + b < len {
                    out.push(vec![a, b, len - a - b]);
                }
            }
        }
    }
    out
}

/// write the chunks into `fd`, each one only after the pipe has been drained (FIONREAD == 0)
fn feed(mut w: std::fs::File, data: Vec<u8>, chunks: Vec<usize>) {
    let fd = w.as_raw_fd();
    let mut off = 0;
    for c in chunks {
        let t0 = std::time::Instant::now();
        loop {
            let mut pending: libc::c_int = 0;
            unsafe {
                libc::ioctl(fd, libc::FIONREAD, &mut pending);
            }
            if pending == 0 || t0.elapsed().as_secs() > 20 {
                break;
            }
            std::thread::sleep(std::time::Duration::from_micros(200));
        }
        // give a reader that has just emptied the pipe the chance to block again before more data arrives
        std::thread::sleep(std::time::Duration::from_millis(2));
        if w.write_all(&data[off..off + c]).is_err() {
            return;
        }
        off += c;
    }
}

#[derive(Clone)]
enum Case {
    File(usize, bool),
    /// (size index, utf8, chunking index, call sequence index)
    Fifo(usize, usize, usize),
    Stdin(usize, usize),
    Write(usize),
    /// read_line meeting bytes that are not valid UTF-8 (0: an invalid line in a file; 1: a multi-byte character split by an earlier read(f, 1))
    BadLine(usize),
}

/// call sequences used on pipes (each ends with a read of everything that remains)
fn pipe_sequences() -> Vec<Vec<Op>> {
    vec![
        vec![Op::Read],
        vec![Op::ReadN(1), Op::Read],
        vec![Op::ReadN(4096), Op::Read],
        vec![Op::ReadN(4097), Op::ReadN(10000), Op::Read],
        vec![Op::Line, Op::Read],
        vec![Op::ReadN(100), Op::Line, Op::Read],
        vec![Op::ReadN(8192), Op::ReadN(1), Op::Read],
        vec![Op::ReadN(0), Op::ReadN(10000), Op::ReadN(10000), Op::Read],
        vec![Op::Line, Op::ToString],
        vec![Op::ToString, Op::Read],
    ]
}

struct WriteCase {
    mode: &'static str,
    existing: bool,
    writes: Vec<(usize, u8)>,
    ending: u8,
}
fn write_cases(tier: Tier) -> Vec<WriteCase> {
    let mut v = vec![];
    let sizes = [0usize, 1, 8191, 8192, 8193];
    let mut seqs: Vec<Vec<(usize, u8)>> = vec![vec![]];
    for a in sizes {
        for ka in 0..3u8 {
            seqs.push(vec![(a, ka)]);
        }
    }
    seqs.push(vec![(256, 3)]);
    seqs.push(vec![(256, 3), (8192, 1)]);
    seqs.push(vec![(8191, 0), (256, 3)]);
    for a in sizes {
        for b in sizes {
            seqs.push(vec![(a, 0), (b, 1)]);
            if tier == Tier::Thorough {
                for c in sizes {
                    seqs.push(vec![(a, 1), (b, 0), (c, 2)]);
                }
            }
        }
    }
    for mode in ["w", "a", "x", "r", ""] {
        for existing in [false, true] {
            for s in &seqs {
                for ending in 0..2u8 {
                    v.push(WriteCase { mode, existing, writes: s.clone(), ending });
                }
            }
        }
    }
    v
}

pub struct P21 {
    cases: Vec<Case>,
    wcases: Vec<WriteCase>,
    e2e: bool,
    /// thorough: every call sequence of depth <= 4 without merging states by cursor
    unmerged: bool,
}
impl P21 {
    pub fn new(tier: Tier) -> P21 {
        let mut cases = vec![];
        for s in 0..SIZES.len() {
            for utf8 in [false, true] {
                cases.push(Case::File(s, utf8));
            }
        }
        let nseq = pipe_sequences().len();
        for s in [1usize, 3, 4, 6, 8, 9] {
            let nch = chunkings(SIZES[s]).len();
            for ch in 0..nch {
                for q in 0..nseq {
                    if tier == Tier::Thorough || (ch + q) % 3 == 0 || ch < 2 {
                        cases.push(Case::Fifo(s, ch, q));
                    }
                }
            }
        }
        let e2e = std::path::Path::new(&bin_path()).exists();
        if e2e {
            for ch in 0..chunkings(12289).len() {
                for q in 0..nseq {
                    if tier == Tier::Thorough || (ch * 3 + q) % 11 == 0 {
                        cases.push(Case::Stdin(ch, q));
                    }
                }
            }
        }
        cases.push(Case::BadLine(0));
        cases.push(Case::BadLine(1));
        let wcases = write_cases(tier);
        for w in 0..wcases.len() {
            cases.push(Case::Write(w));
        }
        P21 { cases, wcases, e2e, unmerged: tier == Tier::Thorough }
    }
}

fn payload(n: usize, k: usize) -> Vec<u8> {
    (0..n).map(|i| b'a' + ((i + k) % 23) as u8).collect()
}

impl Property for P21 {
    fn id(&self) -> &'static str {
        "C21"
    }
    fn len(&self) -> u64 {
        self.cases.len() as u64
    }
    fn horizon_secs(&self) -> u64 {
        60
    }
    fn describe(&self, idx: u64) -> Value {
        match &self.cases[idx as usize] {
            Case::File(s, u) => json!({"file": {"size": SIZES[*s], "flavour": if *u { "utf-8 text" } else { "binary" }}, "search": "BFS over read call sequences of depth <= 3"}),
            Case::Fifo(s, ch, q) => json!({"fifo": {"size": SIZES[*s], "chunks": chunkings(SIZES[*s])[*ch], "calls": format!("{:?}", pipe_sequences()[*q])}}),
            Case::Stdin(ch, q) => json!({"stdin (binary)": {"size": 12289, "chunks": chunkings(12289)[*ch], "calls": format!("{:?}", pipe_sequences()[*q])}}),
            Case::BadLine(k) => json!({"read_line on bytes that are not valid UTF-8": (["file 'ab<0xff>cd / line2 / rest': read_line, read", "file 'é / abc / rest': read(f, 1), read_line, read_line, read"][*k])}),
            Case::Write(w) => {
                let c = &self.wcases[*w];
                json!({"write": {"mode": c.mode, "target_exists": c.existing, "writes(size,kind)": format!("{:?}", c.writes), "ending": (["handle dropped at end", "flush(f) then handle kept alive"][c.ending as usize])}})
            }
        }
    }
    fn run(&self, idx: u64) -> CaseOut {
        if let Case::BadLine(k) = &self.cases[idx as usize] {
            let dir = scratch_dir("c21");
            let (content, ops): (Vec<u8>, Vec<Op>) = if *k == 0 {
                (b"ab\xffcd\nline2\nrest".to_vec(), vec![Op::Line, Op::Read])
            } else {
                ("\u{e9}\nabc\nrest".as_bytes().to_vec(), vec![Op::ReadN(1), Op::Line, Op::Line, Op::Read])
            };
            let path = dir.join("badline.bin");
            std::fs::write(&path, &content).unwrap();
            let r = guarded(|| -> Result<(Vec<u8>, usize), String> {
                let f = (builtin("open"))(vec![st(path.to_str().unwrap())])?;
                let mut got = vec![];
                let mut errors = 0;
                for op in &ops {
                    match call(&f, *op)? {
                        Ok(b) => got.extend(b),
                        Err(_) => errors += 1,
                    }
                }
                Ok((got, errors))
            });
            return match r {
                Err(m) => CaseOut::viol("panic", format!("panicked: {}", one_line(&m, 200))),
                Ok(Err(m)) => CaseOut::viol("wrong bad-line", format!("read_line on invalid UTF-8: {}", m)),
                Ok(Ok((got, errors))) => {
                    if got == content {
                        CaseOut::pass("bad-line nothing lost")
                    } else if errors > 0 && got.len() < content.len() && content.ends_with(&got[got.len().saturating_sub(4)..]) {
                        // defect model: the call that answered with an error object consumed its line
                        CaseOut { class: "bad-line line lost".into(), verdict: known_or_violation("C21", "read-line-invalid-utf8", format!("the calls returned {} of {} bytes: the line that is not valid UTF-8 was consumed but returned by no call", got.len(), content.len())), states: 1, transitions: ops.len() as u64, traces: 1 }
                    } else {
                        CaseOut::viol("wrong bad-line", format!("the calls returned {:?}, the content is {:?}", String::from_utf8_lossy(&got), String::from_utf8_lossy(&content)))
                    }
                }
            };
        }
        let dir = scratch_dir("c21");
        let case = self.cases[idx as usize].clone();
        let r = guarded(|| -> Result<(String, u64, u64), String> {
            match case {
                Case::File(s, utf8) => {
                    let unmerged = self.unmerged;
                    let c = content(SIZES[s], utf8);
                    let path = dir.join("data.bin");
                    std::fs::write(&path, &c).unwrap();
                    let open = || -> Result<Rc<Object>, String> { (builtin("open"))(vec![st(path.to_str().unwrap())]) };
                    let mut seen: BTreeSet<usize> = BTreeSet::new();
                    let mut frontier: VecDeque<(Vec<Op>, usize)> = VecDeque::new();
                    seen.insert(0);
                    frontier.push_back((vec![], 0));
                    let (mut states, mut transitions) = (1u64, 0u64);
                    let mut future: std::collections::BTreeMap<(usize, Op), u64> = Default::default();
                    while let Some((hist, cur)) = frontier.pop_front() {
                        for op in OPS {
                            if !applicable(&c, cur, *op) {
                                continue;
                            }
                            let f = open()?;
                            let mut mcur = 0;
                            for h in &hist {
                                let _ = call(&f, *h)?;
                                model(&c, &mut mcur, *h);
                            }
                            let got = call(&f, *op)?;
                            let want = model(&c, &mut mcur, *op);
                            transitions += 1;
                            match got {
                                Ok(g) if g == want => {}
                                Ok(g) => {
                                    return Err(format!("size {}: after {:?}, {:?} returned {} bytes (starting {:02x?}) but the next {} bytes of the file are due", c.len(), hist, op, g.len(), &g[..g.len().min(6)], want.len()));
                                }
                                Err(e) => return Err(format!("size {}: after {:?}, {:?} returned {}", c.len(), hist, op, e)),
                            }
                            // after the history a final read(f) returns exactly the rest
                            let rest = call(&f, Op::Read)?;
                            let mut k = mcur;
                            let want_rest = model(&c, &mut k, Op::Read);
                            if rest.as_ref().ok() != Some(&want_rest) {
                                return Err(format!("size {}: after {:?} {:?} a final read(f) returned {} bytes, {} remain", c.len(), hist, op, rest.map(|r| r.len() as i64).unwrap_or(-1), want_rest.len()));
                            }
                            let h = want.len() as u64;
                            if let Some(prev) = future.insert((cur, *op), h) {
                                if prev != h {
                                    return Err("MACHINERY: merged states disagree".into());
                                }
                            }
                            let fresh = seen.insert(mcur);
                            if (fresh || unmerged) && hist.len() < if unmerged { 3 } else { 2 } {
                                states += 1;
                                let mut h2 = hist.clone();
                                h2.push(*op);
                                frontier.push_back((h2, mcur));
                            }
                        }
                    }
                    Ok((format!("file size {}", SIZES[s]), states, transitions))
                }
                Case::BadLine(_) => unreachable!(),
                Case::Fifo(s, ch, q) => {
                    let c = content(SIZES[s], true);
                    let chunks = chunkings(c.len())[ch].clone();
                    let seq = pipe_sequences()[q].clone();
                    let mut obs: Vec<Vec<Vec<u8>>> = vec![];
                    // the schedule is replayed twice and must give identical observations
                    for round in 0..2 {
                        let fifo = dir.join(format!("fifo{}", round));
                        let _ = std::fs::remove_file(&fifo);
                        let cp = std::ffi::CString::new(fifo.to_str().unwrap()).unwrap();
                        if unsafe { libc::mkfifo(cp.as_ptr(), 0o600) } != 0 {
                            return Err("MACHINERY: mkfifo failed".into());
                        }
                        let data = c.clone();
                        let chunks2 = chunks.clone();
                        let fifo2 = fifo.clone();
                        let feeder = std::thread::spawn(move || {
                            if let Ok(w) = std::fs::OpenOptions::new().write(true).open(&fifo2) {
                                feed(w, data, chunks2);
                            }
                        });
                        let f = (builtin("open"))(vec![st(fifo.to_str().unwrap())])?;
                        let mut cur = 0;
                        let mut got_all = vec![];
                        for op in &seq {
                            if !applicable(&c, cur, *op) {
                                continue;
                            }
                            let got = call(&f, *op)?.map_err(|e| format!("{:?} on the pipe returned {}", op, e))?;
                            // a bounded read may stop short only at end of input; read(f) and read_line have fixed results
                            let want = {
                                let mut k = cur;
                                model(&c, &mut k, *op)
                            };
                            if got != want {
                                return Err(format!("pipe fed in chunks {:?}: after {} bytes, {:?} returned {} bytes but {} are due (content size {})", chunks, cur, op, got.len(), want.len(), c.len()));
                            }
                            cur += got.len();
                            got_all.push(got);
                        }
                        drop(f);
                        let _ = feeder.join();
                        obs.push(got_all);
                    }
                    if obs[0] != obs[1] {
                        return Err("MACHINERY: the same chunk schedule gave different observations".into());
                    }
                    Ok((format!("fifo chunks={}", chunks.len()), 1, seq.len() as u64 * 2))
                }
                Case::Stdin(ch, q) => {
                    let c = content(12289, true);
                    let chunks = chunkings(c.len())[ch].clone();
                    let seq = pipe_sequences()[q].clone();
                    // script: perform the calls on stdin and print the length of every result
                    let mut src = String::new();
                    let mut cur = 0;
                    let mut want = vec![];
                    for op in &seq {
                        if !applicable(&c, cur, *op) {
                            continue;
                        }
                        let callsrc = match op {
                            Op::Read => "read(stdin)".to_string(),
                            Op::ReadN(n) => format!("read(stdin, {})", n),
                            Op::Line => "encode_utf8(read_line(stdin))".to_string(),
                            Op::ToString => "encode_utf8(read_to_string(stdin))".to_string(),
                        };
                        src.push_str(&format!("let r = {}; println(\"{{}} {{}} {{}}\", len(r), first(r), last(r));\n", callsrc));
                        let m = model(&c, &mut cur, *op);
                        let f = |b: Option<&u8>| b.map(|x| format!("0x{:x}", x)).unwrap_or("null".into());
                        want.push(format!("{} {} {}", m.len(), f(m.first()), f(m.last())));
                    }
                    let path = dir.join("stdin.p2");
                    std::fs::write(&path, &src).unwrap();
                    // spawn with a pipe we feed ourselves
                    use std::process::{Command, Stdio};
                    let mut child = Command::new(bin_path()).arg(path.to_str().unwrap()).env("RUST_BACKTRACE", "0").stdin(Stdio::piped()).stdout(Stdio::piped()).stderr(Stdio::piped()).spawn().map_err(|e| e.to_string())?;
                    let si = child.stdin.take().unwrap();
                    let data = c.clone();
                    let feeder = std::thread::spawn(move || {
                        use std::os::unix::io::{FromRawFd, IntoRawFd};
                        let w = unsafe { std::fs::File::from_raw_fd(si.into_raw_fd()) };
                        feed(w, data, chunks);
                    });
                    let t0 = std::time::Instant::now();
                    let status = loop {
                        if let Ok(Some(s)) = child.try_wait() {
                            break Some(s);
                        }
                        if t0.elapsed().as_secs() > 30 {
                            let _ = child.kill();
                            break None;
                        }
                        std::thread::sleep(std::time::Duration::from_millis(3));
                    };
                    let out = child.wait_with_output().map_err(|e| e.to_string())?;
                    let _ = feeder.join();
                    if status.is_none() {
                        return Err(format!("the script still waits for input after the writer closed the pipe (hang); calls {:?}", seq));
                    }
                    let lines: Vec<String> = String::from_utf8_lossy(&out.stdout).lines().map(|l| l.to_string()).collect();
                    if lines != want {
                        return Err(format!("stdin fed in chunks {:?}, calls {:?}: the script printed {:?} but the content gives {:?}; stderr {}", chunkings(12289)[ch], seq, lines, want, one_line(&String::from_utf8_lossy(&out.stderr), 200)));
                    }
                    Ok(("stdin".into(), 1, seq.len() as u64))
                }
                Case::Write(w) => {
                    let c = &self.wcases[w];
                    let path = dir.join("out.bin");
                    let _ = std::fs::remove_file(&path);
                    let old = b"OLD-CONTENT-0123456789".to_vec();
                    if c.existing {
                        std::fs::write(&path, &old).unwrap();
                    }
                    let mut args = vec![st(path.to_str().unwrap())];
                    if !c.mode.is_empty() {
                        args.push(st(c.mode));
                    }
                    let f = (builtin("open"))(args)?;
                    let reading = c.mode == "r" || c.mode.is_empty();
                    let must_fail = (reading && !c.existing) || (c.mode == "x" && c.existing);
                    let what = format!("open(path, {:?}) on {} file", c.mode, if c.existing { "an existing" } else { "a missing" });
                    if matches!(f.as_ref(), Object::Err(_)) {
                        if must_fail {
                            if c.existing && std::fs::read(&path).ok().as_deref() != Some(&old[..]) {
                                return Err(format!("{}: failed as documented but the file was modified", what));
                            }
                            return Ok((format!("open {} fails", c.mode), 1, 1));
                        }
                        return Err(format!("{}: returned an error object, the documented mode rules say it succeeds", what));
                    }
                    if must_fail {
                        return Err(format!("{}: succeeded, the documented mode rules say it fails", what));
                    }
                    if reading {
                        return Ok(("open r".into(), 1, 1));
                    }
                    let mut expect: Vec<u8> = if c.mode == "a" && c.existing { old.clone() } else { vec![] };
                    for (k, (n, kind)) in c.writes.iter().enumerate() {
                        let mut data = payload(*n, k);
                        if *kind != 0 {
                            // byte forms carry binary data: every byte value occurs, not only the ASCII of the text payload
                            for (i, b) in data.iter_mut().enumerate() {
                                *b = b.wrapping_add((i * 131 + 128) as u8);
                            }
                        }
                        if *kind == 3 {
                            // every byte value 0..=255, one write(f, byte) call each
                            for b in 0..=255u8 {
                                let r = (builtin("write"))(vec![f.clone(), Rc::new(Object::Byte(b))])?;
                                if canon(&r) != "i1" {
                                    return Err(format!("write(f, byte({})) returned {}", b, canon(&r)));
                                }
                                expect.push(b);
                            }
                            continue;
                        }
                        let arg: Rc<Object> = match kind {
                            0 => Rc::new(Object::Str(String::from_utf8(data.clone()).unwrap())),
                            1 => Rc::new(Object::Arr(Rc::new(crate::object::array::Array::new(data.iter().map(|b| Rc::new(Object::Byte(*b))).collect())))),
                            _ => {
                                // single bytes, one call each (only the first byte for long payloads)
                                if data.is_empty() {
                                    continue;
                                }
                                let r = (builtin("write"))(vec![f.clone(), Rc::new(Object::Byte(data[0]))])?;
                                if canon(&r) != "i1" {
                                    return Err(format!("write(f, byte) returned {}", canon(&r)));
                                }
                                expect.push(data[0]);
                                continue;
                            }
                        };
                        let r = (builtin("write"))(vec![f.clone(), arg])?;
                        if canon(&r) != format!("i{}", n) {
                            return Err(format!("{}: write of {} bytes returned {}", what, n, canon(&r)));
                        }
                        expect.extend_from_slice(&data);
                    }
                    if c.ending == 1 {
                        (builtin("flush"))(vec![f.clone()])?;
                        // the handle is still alive: the content must be there once flushed
                        let got = std::fs::read(&path).unwrap_or_default();
                        if got != expect {
                            return Err(format!("{} then writes {:?} then flush(f): the file holds {} bytes, {} were written (+{} old)", what, c.writes, got.len(), expect.len(), if c.mode == "a" && c.existing { old.len() } else { 0 }));
                        }
                    }
                    drop(f);
                    let got = std::fs::read(&path).unwrap_or_default();
                    if got != expect {
                        return Err(format!("{} then writes {:?}: after the handle was closed the file holds {} bytes (head {:?}), expected {}", what, c.writes, got.len(), String::from_utf8_lossy(&got[..got.len().min(12)]), expect.len()));
                    }
                    Ok((format!("write mode {}", c.mode), 1, c.writes.len() as u64 + 1))
                }
            }
        });
        match r {
            Err(m) => CaseOut::viol("panic", format!("panicked: {}", one_line(&m, 300))),
            Ok(Err(m)) => {
                let cls = match &self.cases[idx as usize] {
                    Case::File(..) => "file-read",
                    Case::Fifo(..) => "fifo-read",
                    Case::Stdin(..) => "stdin-read",
                    Case::Write(_) => "write",
                    Case::BadLine(_) => "bad-line",
                };
                CaseOut::viol(format!("wrong {}", cls), m)
            }
            Ok(Ok((class, s, t))) => CaseOut::pass(class).with_counts(s, t, t),
        }
    }
    fn rule(&self) -> String {
        format!("files: sizes {:?} x (binary counter pattern with newlines at 0/4095/4096/8191/8192, UTF-8 text with 2-, 3- and 4-byte characters straddling the buffer boundaries); per file a breadth-first search over call sequences of depth <= 3 (thorough: every sequence of depth <= 4, states not merged) from {:?} (string-returning calls only where the data is valid UTF-8), model = content + cursor, canonical state = cursor (merged states cross-checked), every transition on a freshly opened handle and followed by a final read(f) that must return exactly the rest; pipes: 10 call sequences (incl. read_to_string) x every composition of the content into <= 3 chunks with sizes from {{1, 100, 4096, 4097, 8192, rest}} on a FIFO opened with the real open (in-process) and on stdin of the binary; the feeder writes chunk j+1 only when the pipe is empty (FIONREAD == 0), every schedule is run twice and must give identical observations, a reader still waiting after the writer closed is a hang; writes: mode (w, a, x, r, none) x target (missing, existing) x sequences of <= 2 (thorough 3) writes of sizes 0/1/8191/8192/8193 as string / byte array / single byte (byte forms carry every byte value; one sequence writes all 256 values one call each) x ending (handle closed; flush(f) with the handle still open): file content = old-content rule of the mode + the bytes written, and open must succeed or fail as documented", SIZES, OPS)
    }
    fn bounds(&self) -> Value {
        json!({"cases": self.cases.len(), "write_cases": self.wcases.len(), "binary_runs": self.e2e})
    }
    fn assumptions(&self) -> Vec<String> {
        vec!["canonical state = cursor: a reader's future depends only on the content and its position".into(),
             "the feeder protocol (write only into an empty pipe, 2 ms grace) makes the short-read sequence a function of the chunking; each schedule is replayed twice".into(),
             "leaving through exit() without flush is not covered (whether that counts as 'closed at program end' is not specified)".into()]
    }
}
