//! C16 — header accessors decode the RFC-defined fields and layers.
//! Every value of every field of <= 16 bits (thorough; quick: all <= 8-bit fields exhaustively and
//! boundary + walking-bit values of the wider ones), embedded in three backgrounds; payloads for every
//! header length; layer dispatch for every EtherType / protocol / next-header value, full length and
//! truncated inside the selected layer; pcap and record header fields.

use crate::code::prop::PacketPropType as P;
use crate::fw::*;
use crate::object::Object;
use crate::pkt::*;
use crate::subject::*;
use serde_json::{json, Value};
use std::rc::Rc;

/// (layer, header length in bytes, path of named properties from the packet to the layer)
fn layer_info(layer: &str) -> (usize, Vec<P>) {
    match layer {
        "eth" => (14, vec![P::Eth]),
        "vlan" => (4, vec![P::Eth, P::Vlan]),
        "ipv4" => (20, vec![P::Eth, P::Ipv4]),
        "ipv6" => (40, vec![P::Eth, P::Ipv6]),
        "udp" => (8, vec![P::Eth, P::Ipv4, P::Udp]),
        "tcp" => (20, vec![P::Eth, P::Ipv4, P::Tcp]),
        _ => panic!("layer"),
    }
}

/// frame holding `hdr` as the given layer, with consistent selectors in the enclosing layers
fn frame_with(layer: &str, hdr: &[u8], bg: u8, tail: usize) -> Vec<u8> {
    let fill = |n: usize, start: usize| -> Vec<u8> { (0..n).map(|i| if bg == 1 { pat(start + i) } else if bg == 0 { 0 } else { 0xFF }).collect() };
    let mut f = vec![];
    let eth = |f: &mut Vec<u8>, ty: u16| {
        let mut e = fill(12, 0);
        e.extend_from_slice(&ty.to_be_bytes());
        f.extend_from_slice(&e);
    };
    let ip4 = |f: &mut Vec<u8>, proto: u8| {
        let start = f.len();
        let mut h = fill(20, start);
        h[0] = 0x45;
        h[9] = proto;
        f.extend_from_slice(&h);
    };
    match layer {
        "eth" => {}
        "vlan" => eth(&mut f, 0x8100),
        "ipv4" => eth(&mut f, 0x0800),
        "ipv6" => eth(&mut f, 0x86DD),
        "udp" => {
            eth(&mut f, 0x0800);
            ip4(&mut f, 17);
        }
        "tcp" => {
            eth(&mut f, 0x0800);
            ip4(&mut f, 6);
        }
        _ => {}
    }
    f.extend_from_slice(hdr);
    let n = f.len();
    f.extend(fill(tail, n));
    f
}

fn walk(vm: &crate::vm::interpreter::VM, pkt: &Rc<crate::builtins::pcap::PcapPacket>, path: &[P]) -> Result<Rc<Object>, String> {
    let mut o: Rc<Object> = Rc::new(Object::Packet(pkt.clone()));
    for p in path {
        o = vm.exec_prop_expr(o, *p as u8, None, 1).map_err(|e| e.msg)?;
    }
    Ok(o)
}

fn values_for(width: usize, exhaustive16: bool) -> Vec<u128> {
    if width <= 8 || (width <= 16 && exhaustive16) {
        return (0..(1u128 << width)).collect();
    }
    let all: u128 = if width >= 128 { u128::MAX } else { (1u128 << width) - 1 };
    let mut v: Vec<u128> = vec![0, 1, 2, all, all - 1, 1 << (width - 1), (1 << (width - 1)) - 1];
    for b in 0..width {
        v.push(1 << b);
        v.push(all ^ (1 << b));
    }
    if width > 16 {
        v.push(0x0123_4567_89AB_CDEF_0123_4567_89AB_CDEF & all);
        v.push(0xFEDC_BA98_7654_3210_0F1E_2D3C_4B5A_6978 & all);
    }
    v.sort();
    v.dedup();
    v
}

pub fn expected_text(kind: FKind, v: u128) -> String {
    match kind {
        FKind::UInt => format!("i{}", v),
        FKind::Bool => format!("{}", v == 1),
        FKind::Mac => format!("mac:{:012x}", v),
        FKind::Ip4 => format!("ip4:{:08x}", v),
        FKind::Ip6 => format!("ip6:{:032x}", v),
    }
}
/// canonical form of a value the accessor returned (addresses parsed with the reference parsers)
pub fn observed_text(kind: FKind, o: &Object) -> String {
    match (kind, o) {
        (FKind::UInt, Object::Integer(i)) => format!("i{}", i),
        (FKind::Bool, Object::Bool(b)) => format!("{}", b),
        (FKind::Mac, Object::Str(s)) => {
            let parts: Vec<&str> = s.split(':').collect();
            if parts.len() == 6 && parts.iter().all(|p| !p.is_empty() && p.len() <= 2 && u8::from_str_radix(p, 16).is_ok()) {
                let mut v: u64 = 0;
                for p in parts {
                    v = (v << 8) | u8::from_str_radix(p, 16).unwrap() as u64;
                }
                format!("mac:{:012x}", v)
            } else {
                format!("unparsable-mac:{}", s)
            }
        }
        (FKind::Ip4, Object::Str(s)) => match s.parse::<std::net::Ipv4Addr>() {
            Ok(a) => format!("ip4:{:08x}", u32::from(a)),
            Err(_) => format!("unparsable-ipv4:{}", s),
        },
        (FKind::Ip6, Object::Str(s)) => match s.parse::<std::net::Ipv6Addr>() {
            Ok(a) => format!("ip6:{:032x}", u128::from(a)),
            Err(_) => format!("unparsable-ipv6:{}", s),
        },
        (_, other) => format!("unexpected-kind:{}", canon(other)),
    }
}

#[derive(Clone)]
enum Case {
    Field(usize, u8),
    Payload(&'static str),
    /// dispatch level: 0 = Ethernet type, 1 = VLAN type, 2 = IPv4 protocol, 3 = IPv6 next header
    Dispatch(u8, bool),
    PcapHeader,
    RecordHeader,
}

pub struct P16 {
    cases: Vec<Case>,
    tier: Tier,
}
impl P16 {
    pub fn new(tier: Tier) -> P16 {
        let mut cases = vec![];
        for f in 0..FIELDS.len() {
            for bg in 0..3u8 {
                cases.push(Case::Field(f, bg));
            }
        }
        for l in ["eth", "vlan", "ipv4", "ipv6", "udp", "tcp"] {
            cases.push(Case::Payload(l));
        }
        for lvl in 0..4u8 {
            cases.push(Case::Dispatch(lvl, false));
            cases.push(Case::Dispatch(lvl, true));
        }
        cases.push(Case::PcapHeader);
        cases.push(Case::RecordHeader);
        P16 { cases, tier }
    }
}

fn kind_name(o: &Object) -> &'static str {
    layer_of(o)
}

impl Property for P16 {
    fn id(&self) -> &'static str {
        "C16"
    }
    fn len(&self) -> u64 {
        self.cases.len() as u64
    }
    fn horizon_secs(&self) -> u64 {
        120
    }
    fn describe(&self, idx: u64) -> Value {
        match &self.cases[idx as usize] {
            Case::Field(f, bg) => json!({"field": format!("{}.{}", FIELDS[*f].layer, FIELDS[*f].name), "bits": FIELDS[*f].width, "background": (["0x00", "pattern", "0xFF"][*bg as usize])}),
            Case::Payload(l) => json!({"payload of": l}),
            Case::Dispatch(l, t) => json!({"dispatch on": (["ethernet type", "vlan type", "ipv4 protocol", "ipv6 next header"][*l as usize]), "selected layer truncated": t}),
            Case::PcapHeader => json!({"pcap global header fields": ["magic", "major", "minor", "thiszone", "sigfigs", "snaplen", "linktype"]}),
            Case::RecordHeader => json!({"packet record fields": ["sec", "usec", "caplen", "wirelen", "payload"]}),
        }
    }
    fn run(&self, idx: u64) -> CaseOut {
        let dir = scratch_dir("c16");
        let vm = empty_vm();
        let case = self.cases[idx as usize].clone();
        let r = guarded(|| -> Result<(String, u64), String> {
            match case {
                Case::Field(fi, bg) => {
                    let f = &FIELDS[fi];
                    let (hlen, path) = layer_info(f.layer);
                    let vals = values_for(f.width, self.tier == Tier::Thorough);
                    let mut frames = vec![];
                    for v in &vals {
                        let start = 60; // pattern phase for the header bytes
                        let mut hdr: Vec<u8> = (0..hlen).map(|i| if bg == 1 { pat(start + i) } else if bg == 0 { 0 } else { 0xFF }).collect();
                        // keep the layer's own length fields sane unless they are the field under test
                        if f.layer == "ipv4" && f.name != "ihl" && f.name != "version" {
                            hdr[0] = 0x45;
                        }
                        if f.layer == "tcp" && f.name != "dataoff" {
                            hdr[12] = (hdr[12] & 0x0F) | 0x50;
                        }
                        set_bits(&mut hdr, f.bit, f.width, *v);
                        // 64 tail bytes keep every announced header length inside the frame
                        frames.push((frame_with(f.layer, &hdr, bg, 64), hdr));
                    }
                    let pkts = load_frames(&dir, "fld", &frames.iter().map(|x| x.0.clone()).collect::<Vec<_>>());
                    for ((p, v), (_, hdr)) in pkts.iter().zip(vals.iter()).zip(frames.iter()) {
                        let layer = walk(&vm, p, &path)?;
                        if matches!(layer.as_ref(), Object::Err(_)) {
                            // a header length field announcing more bytes than the frame holds is a truncated layer
                            return Err(format!("{}.{} = {}: the layer is reported as truncated (error object) although the frame holds the whole header (header bytes {:02x?})", f.layer, f.name, v, hdr));
                        }
                        let got = vm.exec_prop_expr(layer, f.prop as u8, None, 1).map_err(|e| format!("{}.{}: {}", f.layer, f.name, e.msg))?;
                        let (g, w) = (observed_text(f.kind, &got), expected_text(f.kind, *v));
                        if g != w {
                            return Err(format!("{}.{} reads {} but the header bytes {:02x?} hold {} (bit offset {}, {} bits)", f.layer, f.name, g, hdr, w, f.bit, f.width));
                        }
                        // every other field of the same header must still decode as laid out
                        for o in fields_of(f.layer) {
                            if o.name == f.name {
                                continue;
                            }
                            let layer = walk(&vm, p, &path)?;
                            let got = vm.exec_prop_expr(layer, o.prop as u8, None, 1).map_err(|e| format!("{}.{}: {}", o.layer, o.name, e.msg))?;
                            let want = expected_text(o.kind, get_bits(hdr, o.bit, o.width));
                            if observed_text(o.kind, &got) != want {
                                return Err(format!("with {}.{} = {}, {}.{} reads {} instead of {} (header bytes {:02x?})", f.layer, f.name, v, o.layer, o.name, observed_text(o.kind, &got), want, hdr));
                            }
                        }
                    }
                    Ok((format!("field {}.{}", f.layer, f.name), vals.len() as u64))
                }
                Case::Payload(layer) => {
                    let (hlen, path) = layer_info(layer);
                    let mut n = 0;
                    // header length variants: IHL and data offset 5..15 (values below 5 are malformed: unspecified)
                    let variants: Vec<usize> = match layer {
                        "ipv4" | "tcp" => (5..=15).collect(),
                        _ => vec![0],
                    };
                    for hv in variants {
                        for tail in [0usize, 1, 7, 40] {
                            let real_len = if hv > 0 { hv * 4 } else { hlen };
                            let mut hdr: Vec<u8> = (0..real_len).map(|i| pat(90 + i)).collect();
                            if layer == "ipv4" {
                                hdr[0] = 0x40 | hv as u8;
                            }
                            if layer == "tcp" {
                                hdr[12] = ((hv as u8) << 4) | (hdr[12] & 0x0F);
                            }
                            let frame = frame_with(layer, &hdr, 1, tail);
                            let expect: Vec<u8> = frame[frame.len() - tail..].to_vec();
                            let p = load_frames(&dir, "pl", &[frame.clone()]).remove(0);
                            let lo = walk(&vm, &p, &path)?;
                            let got = vm.exec_prop_expr(lo, P::Payload as u8, None, 1).map_err(|e| format!("{}.payload: {}", layer, e.msg))?;
                            let bytes: Vec<u8> = match got.as_ref() {
                                Object::Arr(a) => a.elements.borrow().iter().map(|b| if let Object::Byte(x) = b.as_ref() { *x } else { 0 }).collect(),
                                other => return Err(format!("{}.payload is {}", layer, canon(other))),
                            };
                            if bytes != expect {
                                return Err(format!("{}.payload with a {}-byte header and {} bytes after it returns {} bytes {:02x?}, expected {:02x?}", layer, real_len, tail, bytes.len(), &bytes[..bytes.len().min(12)], &expect[..expect.len().min(12)]));
                            }
                            n += 1;
                        }
                    }
                    Ok((format!("payload {}", layer), n))
                }
                Case::Dispatch(level, truncated) => {
                    // selector values and the frame prefix that leads to the selecting layer
                    let nvals: usize = if level < 2 { 65536 } else { 256 };
                    let step = if level < 2 && self.tier == Tier::Quick { 1 } else { 1 };
                    let mut frames = vec![];
                    let mut sels = vec![];
                    for s in (0..nvals).step_by(step) {
                        let mut f: Vec<u8> = (0..12).map(pat).collect();
                        let depth; // $depth is the layer the selector chooses
                        match level {
                            0 => {
                                f.extend_from_slice(&(s as u16).to_be_bytes());
                                depth = 2;
                            }
                            1 => {
                                f.extend_from_slice(&0x8100u16.to_be_bytes());
                                f.extend_from_slice(&[pat(14), pat(15)]);
                                f.extend_from_slice(&(s as u16).to_be_bytes());
                                depth = 3;
                            }
                            2 => {
                                f.extend_from_slice(&0x0800u16.to_be_bytes());
                                let st = f.len();
                                let mut h: Vec<u8> = (0..20).map(|i| pat(st + i)).collect();
                                h[0] = 0x45;
                                h[9] = s as u8;
                                f.extend_from_slice(&h);
                                depth = 3;
                            }
                            _ => {
                                f.extend_from_slice(&0x86DDu16.to_be_bytes());
                                let st = f.len();
                                let mut h: Vec<u8> = (0..40).map(|i| pat(st + i)).collect();
                                h[0] = 0x60;
                                h[6] = s as u8;
                                f.extend_from_slice(&h);
                                depth = 3;
                            }
                        }
                        // the selected layer: 60 well-formed bytes, or 3 bytes (truncated inside every known header)
                        let st = f.len();
                        let body: Vec<u8> = if truncated { (0..3).map(|i| pat(st + i)).collect() } else {
                            let mut b: Vec<u8> = (0..60).map(|i| pat(st + i)).collect();
                            b[0] = if level == 0 || level == 1 { if s == 0x86DD { 0x60 } else { 0x45 } } else { b[0] };
                            b[12] = 0x50 | (b[12] & 0x0F);
                            b
                        };
                        f.extend_from_slice(&body);
                        frames.push(f);
                        sels.push((s, depth));
                    }
                    let pkts = load_frames(&dir, "dsp", &frames);
                    let mut n = 0;
                    for (p, (s, depth)) in pkts.iter().zip(sels.iter()) {
                        let want: &[&str] = match level {
                            0 | 1 => match *s {
                                0x0800 => &["ipv4"],
                                0x86DD => &["ipv6"],
                                0x8100 => &["vlan"],
                                // 802.1ad / legacy QinQ tags: unsupported (null) or treated as a VLAN tag
                                0x88A8 | 0x9100 => &["null", "vlan"],
                                _ => &["null"],
                            },
                            2 => match *s {
                                6 => &["tcp"],
                                17 => &["udp"],
                                41 => &["ipv6"],
                                _ => &["null"],
                            },
                            _ => match *s {
                                6 => &["tcp"],
                                17 => &["udp"],
                                41 => &["null", "ipv6"],
                                _ => &["null"],
                            },
                        };
                        let po: Rc<Object> = Rc::new(Object::Packet(p.clone()));
                        let got = vm.get_inner(&po, *depth, 1).map_err(|e| format!("${} with selector {:#x} at level {}: runtime error '{}'", depth, s, level, e.msg))?;
                        let k = kind_name(&got);
                        let ok = if truncated && want != ["null"] { k == "error" || (want.contains(&"null") && k == "null") } else { want.contains(&k) };
                        if !ok {
                            return Err(format!("selector {:#x} at level {} ({}): ${} is a {} object, expected {:?}{}", s, level, ["ethernet type", "vlan type", "ipv4 protocol", "ipv6 next header"][level as usize], depth, k, want, if truncated { " truncated => error object" } else { "" }));
                        }
                        // the named property matching the selector gives the same kind of layer
                        if !truncated && want.len() == 1 && want[0] != "null" {
                            let parent = vm.get_inner(&Rc::new(Object::Packet(load_frames(&dir, "dsp1", &[frames[n as usize].clone()]).remove(0))), depth - 1, 1).map_err(|e| e.msg)?;
                            let prop = match want[0] {
                                "ipv4" => P::Ipv4,
                                "ipv6" => P::Ipv6,
                                "vlan" => P::Vlan,
                                "tcp" => P::Tcp,
                                _ => P::Udp,
                            };
                            let via = vm.exec_prop_expr(parent, prop as u8, None, 1).map_err(|e| format!("named access .{} for selector {:#x} at level {}: runtime error '{}'", want[0], s, level, e.msg))?;
                            if kind_name(&via) != want[0] {
                                return Err(format!("named access .{} for selector {:#x} gives a {} object", want[0], s, kind_name(&via)));
                            }
                        }
                        // a named layer property the selector does not select yields null (here: after $n filled the cache,
                        // also when the selected layer is truncated and the cache holds its error object)
                        if truncated && want != ["null"] {
                            let parent = vm.get_inner(&po, depth - 1, 1).map_err(|e| e.msg)?;
                            let layer_props: &[(P, &str)] = match level {
                                0 | 1 => &[(P::Vlan, "vlan"), (P::Ipv4, "ipv4"), (P::Ipv6, "ipv6")],
                                2 => &[(P::Udp, "udp"), (P::Tcp, "tcp"), (P::Ipv6, "ipv6")],
                                _ => &[(P::Udp, "udp"), (P::Tcp, "tcp")],
                            };
                            for (prop, name) in layer_props {
                                if want.contains(name) {
                                    continue;
                                }
                                if let Ok(via) = vm.exec_prop_expr(parent.clone(), *prop as u8, None, 1) {
                                    if kind_name(&via) != "null" {
                                        return Err(format!("selector {:#x} at level {}, selected layer truncated: the unselected named property .{} gives a {} object after the selected layer was read", s, level, name, kind_name(&via)));
                                    }
                                }
                            }
                        }
                        if !truncated {
                            let parent = vm.get_inner(&po, depth - 1, 1).map_err(|e| e.msg)?;
                            let layer_props: &[(P, &str)] = match level {
                                0 | 1 => &[(P::Vlan, "vlan"), (P::Ipv4, "ipv4"), (P::Ipv6, "ipv6")],
                                2 => &[(P::Udp, "udp"), (P::Tcp, "tcp"), (P::Ipv6, "ipv6")],
                                _ => &[(P::Udp, "udp"), (P::Tcp, "tcp")],
                            };
                            for (prop, name) in layer_props {
                                if want.contains(name) {
                                    continue;
                                }
                                let via = vm.exec_prop_expr(parent.clone(), *prop as u8, None, 1).map_err(|e| format!("named access .{} for selector {:#x} at level {}: runtime error '{}'", name, s, level, e.msg))?;
                                if kind_name(&via) != "null" {
                                    return Err(format!("selector {:#x} at level {}: the named property .{} gives a {} object although the selector selects {:?}", s, level, name, kind_name(&via), want));
                                }
                            }
                            // and in the other order, on a fresh packet: named reads first must not disturb $n
                            if [0x0800usize, 0x86DD, 0x8100, 0x0806, 6, 17, 41, 0, 1].contains(s) {
                                let fresh: Rc<Object> = Rc::new(Object::Packet(load_frames(&dir, "dsp2", &[frames[n as usize].clone()]).remove(0)));
                                let parent = vm.get_inner(&fresh, depth - 1, 1).map_err(|e| e.msg)?;
                                for (prop, _) in layer_props {
                                    let _ = vm.exec_prop_expr(parent.clone(), *prop as u8, None, 1);
                                }
                                let again = vm.get_inner(&fresh, *depth, 1).map_err(|e| e.msg)?;
                                if !want.contains(&kind_name(&again)) {
                                    return Err(format!("selector {:#x} at level {}: after reading the named layer properties ${} is a {} object, expected {:?}", s, level, depth, kind_name(&again), want));
                                }
                            }
                        }
                        n += 1;
                    }
                    // depths beyond the chain give null; $11 must not crash
                    let po: Rc<Object> = Rc::new(Object::Packet(pkts[0].clone()));
                    for d in 4..=11 {
                        let _ = vm.get_inner(&po, d, 1);
                    }
                    Ok((format!("dispatch level {} truncated={}", level, truncated), n))
                }
                Case::PcapHeader => {
                    let mut n = 0;
                    let vals32 = values_for(32, false);
                    for (fi, name) in ["magic", "major", "minor", "thiszone", "sigfigs", "snaplen", "linktype"].iter().enumerate() {
                        let props = [P::Magic, P::Major, P::Minor, P::ThisZone, P::SigFigs, P::Snaplen, P::LinkType];
                        let vals: Vec<u128> = match *name {
                            "magic" => vec![MAGIC_US as u128, MAGIC_NS as u128],
                            "major" | "minor" => values_for(16, false),
                            _ => vals32.clone(),
                        };
                        for v in vals {
                            let mut hdr = global_header(MAGIC_US, 2, 4, 0, 0, 65535, 1);
                            let (off, w) = [(0, 4), (4, 2), (6, 2), (8, 4), (12, 4), (16, 4), (20, 4)][fi];
                            let b = (v as u32).to_le_bytes();
                            hdr[off..off + w].copy_from_slice(&b[..w]);
                            let path = dir.join("hdr.pcap");
                            std::fs::write(&path, &hdr).unwrap();
                            let pc = open_pcap(&path).map_err(|e| e)?;
                            if matches!(pc.as_ref(), Object::Err(_)) {
                                return Err(format!("a well-formed global header with {} = {} is rejected", name, v));
                            }
                            let got = vm.exec_prop_expr(pc, props[fi] as u8, None, 1).map_err(|e| e.msg)?;
                            let want = if *name == "thiszone" { (v as u32 as i32) as i64 } else { v as i64 };
                            if canon(&got) != format!("i{}", want) {
                                return Err(format!("pcap.{} reads {} but the header holds {}", name, canon(&got), want));
                            }
                            n += 1;
                        }
                    }
                    Ok(("pcap header".into(), n))
                }
                Case::RecordHeader => {
                    let mut n = 0;
                    let vals32 = values_for(32, false);
                    for v in vals32 {
                        let v = v as u32;
                        let data: Vec<u8> = (0..20).map(pat).collect();
                        for (fi, name) in ["sec", "usec", "wirelen"].iter().enumerate() {
                            let mut rec = Rec { sec: 1, usec: 2, wirelen: 3, data: data.clone() };
                            match fi {
                                0 => rec.sec = v,
                                1 => rec.usec = v,
                                _ => rec.wirelen = v,
                            }
                            let path = dir.join("rec.pcap");
                            std::fs::write(&path, pcap_bytes(MAGIC_NS, 65535, 1, &[rec.clone()])).unwrap();
                            let pc = open_pcap(&path)?;
                            let pk = (builtin("pcap_read_next"))(vec![pc])?;
                            for (prop, want) in [(P::Sec, rec.sec as i64), (P::USec, rec.usec as i64), (P::Wirelen, rec.wirelen as i64), (P::Caplen, 20)] {
                                let got = vm.exec_prop_expr(pk.clone(), prop as u8, None, 1).map_err(|e| e.msg)?;
                                if canon(&got) != format!("i{}", want) {
                                    return Err(format!("with {} = {}: packet.{:?} reads {} instead of {}", name, v, prop, canon(&got), want));
                                }
                            }
                            let pl = vm.exec_prop_expr(pk.clone(), P::Payload as u8, None, 1).map_err(|e| e.msg)?;
                            let want_pl = format!("[{}]", data.iter().map(|b| format!("y{}", b)).collect::<Vec<_>>().join(","));
                            if canon(&pl) != want_pl {
                                return Err(format!("packet.payload differs from the captured bytes: {}", canon(&pl)));
                            }
                            n += 1;
                        }
                    }
                    Ok(("record header".into(), n))
                }
            }
        });
        match r {
            Err(m) => CaseOut::viol("panic", format!("panicked: {}", one_line(&m, 300))),
            Ok(Err(m)) => {
                let cls = m.split(|c| c == ' ' || c == ':').next().unwrap_or("").to_string();
                CaseOut::viol(format!("wrong {}", cls), m)
            }
            Ok(Ok((class, n))) => CaseOut::pass(class).with_counts(n, n, n),
        }
    }
    fn rule(&self) -> String {
        format!("{} header fields (Ethernet, 802.1Q, IPv4, IPv6, UDP, TCP per the layout table mc/src/pkt.rs) x 3 backgrounds (0x00, 0xFF, position pattern): every value of every field of <= 8 bits (thorough: <= 16 bits), boundary and walking-one/walking-zero values of wider fields; after each write of the bits every other field of the same header must still read as laid out; payload of every layer for every header length (IHL, data offset 5..15) x 4 tail sizes; dispatch: all 65536 EtherTypes at Ethernet and at VLAN level, all 256 IPv4 protocols and IPv6 next headers via $n and via the matching named property, each at full length and truncated inside the selected layer (error object expected); pcap global-header and record-header fields at boundary/walking 32-bit values; frames reach the code through a real pcap file and the real parser", FIELDS.len())
    }
    fn bounds(&self) -> Value {
        json!({"fields": FIELDS.len(), "cases": self.cases.len(), "tier": self.tier.name()})
    }
    fn assumptions(&self) -> Vec<String> {
        vec!["the layout table is a transcription of IEEE 802.1Q and RFC 791/8200/9293/768; TCP 'flags' = the 8 control bits".into(),
             "a named layer property that contradicts the selector field, $11, header lengths below 5 and the 802.1ad/QinQ EtherTypes (null or VLAN accepted) are not specified".into()]
    }
}
