//! C12 — format and print render the documented format mini-language.
//! A reference renderer written from the statement is compared with `format` on every format
//! string of a bounded grammar; print/println/eprint/eprintln are run with the process's own
//! stdout/stderr redirected to a file and must write exactly that text and return its byte length.

use crate::fw::*;
use crate::object::Object;
use crate::refval::*;
use crate::subject::*;
use serde_json::{json, Value};
use std::rc::Rc;

fn arg_values() -> Vec<V> {
    vec![
        V::Int(5),
        V::Int(-3),
        V::Int(255),
        V::Int(0),
        V::Str("ab".into()),
        V::Str("".into()),
        V::Char('c'),
        V::Bool(true),
        V::Null,
        V::Float(1.5),
        arr(vec![V::Int(1)]),
        V::Byte(7),
        V::Int(i64::MAX),
    ]
}

const INDEXES: &[&str] = &["", "0", "1", "2", "99", "18446744073709551615"];
const FILLS: &[&str] = &["", "*", "0", "-", "_", "x", "b", ":", " ", "9", "{"];
const ALIGNS: &[&str] = &["<", ">"];
const WIDTHS: &[&str] = &["", "0", "1", "3", "5", "12"];
const TYPES: &[&str] = &["", "b", "o", "x", "X"];

#[derive(Clone, Debug)]
struct Spec {
    index: Option<usize>,
    fill: Option<char>,
    align: Option<char>,
    width: usize,
    ty: Option<char>,
    text: String,
}

fn all_specs() -> Vec<Spec> {
    let mut v = vec![];
    for idx in INDEXES {
        let index = idx.parse::<usize>().ok();
        v.push(Spec { index, fill: None, align: None, width: 0, ty: None, text: format!("{{{}}}", idx) });
        for w in WIDTHS {
            for t in TYPES {
                // no alignment
                v.push(Spec { index, fill: None, align: None, width: w.parse().unwrap_or(0), ty: t.chars().next(), text: format!("{{{}:{}{}}}", idx, w, t) });
                for f in FILLS {
                    for a in ALIGNS {
                        v.push(Spec {
                            index,
                            fill: f.chars().next(),
                            align: a.chars().next(),
                            width: w.parse().unwrap_or(0),
                            ty: t.chars().next(),
                            text: format!("{{{}:{}{}{}{}}}", idx, f, a, w, t),
                        });
                    }
                }
            }
        }
    }
    v
}

/// text of one value as `format("{}", v)` of the implementation renders it (the property does not
/// define the unpadded text of every kind, so the implementation's own plain rendering defines it)
fn plain_text(v: &V) -> Result<String, String> {
    let f = builtin("format");
    match guarded(|| f(vec![Rc::new(Object::Str("{}".into())), to_object(v)])) {
        Ok(Ok(o)) => match o.as_ref() {
            Object::Str(s) => Ok(s.clone()),
            _ => Err("format did not return a string".into()),
        },
        Ok(Err(e)) => Err(e),
        Err(m) => Err(format!("panic: {}", m)),
    }
}

enum Seg {
    Lit(String),
    Spec(Spec),
}

/// the reference renderer: Ok(text) / Err(()) = runtime error / None = outside the specified domain
fn reference(segs: &[Seg], args: &[V]) -> Option<Result<String, ()>> {
    let mut out = String::new();
    let mut next = 0usize;
    for s in segs {
        match s {
            Seg::Lit(t) => out.push_str(&t.replace("{{", "{").replace("}}", "}")),
            Seg::Spec(sp) => {
                let arg = match sp.index {
                    Some(i) => args.get(i),
                    None => {
                        let a = args.get(next);
                        next += 1;
                        a
                    }
                };
                let arg = match arg {
                    Some(a) => a,
                    None => return Some(Err(())),
                };
                let text = match sp.ty {
                    None => match arg {
                        V::Int(i) => i.to_string(),
                        V::Str(s) => s.clone(),
                        other => plain_text(other).ok()?,
                    },
                    Some(t) => match arg {
                        V::Int(i) if *i >= 0 => match t {
                            'b' => format!("{:b}", i),
                            'o' => format!("{:o}", i),
                            'x' => format!("{:x}", i),
                            _ => format!("{:X}", i),
                        },
                        // negative integers in a radix and radix formats on non-integers are not specified
                        _ => return None,
                    },
                };
                if !text.is_ascii() && sp.width > 0 {
                    return None;
                }
                let n = text.chars().count();
                let pad: String = std::iter::repeat(sp.fill.unwrap_or(' ')).take(sp.width.saturating_sub(n)).collect();
                let left = match sp.align {
                    Some('<') => true,
                    Some('>') => false,
                    _ => !matches!(arg, V::Int(_)),
                };
                if left {
                    out.push_str(&text);
                    out.push_str(&pad);
                } else {
                    out.push_str(&pad);
                    out.push_str(&text);
                }
            }
        }
    }
    Some(Ok(out))
}

fn fmt_text(segs: &[Seg]) -> String {
    segs.iter().map(|s| match s { Seg::Lit(t) => t.clone(), Seg::Spec(sp) => sp.text.clone() }).collect()
}

fn call_format(fmt: &str, args: &[V]) -> Result<Result<String, String>, String> {
    let f = builtin("format");
    let mut a = vec![Rc::new(Object::Str(fmt.to_string()))];
    a.extend(args.iter().map(to_object));
    guarded(move || match f(a) {
        Ok(o) => match o.as_ref() {
            Object::Str(s) => Ok(s.clone()),
            other => Err(format!("non-string result {}", canon(other))),
        },
        Err(e) => Err(e),
    })
}

/// run `f` with file descriptor `fd` (1 or 2) redirected into a file; returns what was written
fn capture_fd(fd: i32, tag: &str, f: impl FnOnce()) -> Vec<u8> {
    use std::io::Write;
    let path = scratch_dir("c12").join(format!("cap-{}", tag));
    let _ = std::io::stdout().flush();
    let _ = std::io::stderr().flush();
    let cpath = std::ffi::CString::new(path.to_str().unwrap()).unwrap();
    unsafe {
        let saved = libc::dup(fd);
        let tmp = libc::open(cpath.as_ptr(), libc::O_WRONLY | libc::O_CREAT | libc::O_TRUNC, 0o600);
        libc::dup2(tmp, fd);
        libc::close(tmp);
        f();
        let _ = std::io::stdout().flush();
        let _ = std::io::stderr().flush();
        libc::dup2(saved, fd);
        libc::close(saved);
    }
    std::fs::read(&path).unwrap_or_default()
}

#[derive(Clone)]
enum Case {
    /// full specifier set, one specifier between literal text, the selected argument ranging over all values
    Single(usize, usize),
    /// multi-segment strings over the reduced alphabet x fixed argument lists
    Multi(Vec<usize>, usize),
    /// malformed strings: only "no crash"
    Malformed(usize),
    /// print family: (variant, segment indices, arg list)
    Print(usize, Vec<usize>, usize),
}

const MALFORMED: &[&str] = &[
    "{", "}", "a{", "a}", "{0", "{:", "{:5", "{{}", "{}}", "{a}", "{-1}", "{:a}", "{:5a}", "{99999999999999999999}", "{:99999999999999999999}", "{:>}",
    "{:<<5}", "{::}", "{0:0:0}", "{ }", "{: }", "{:5 }", "{0 }", "{{{0}}}", "}{", "{}{", "{:x>5x}", "{x}", "{b}", "{:bb}", "{1:2:3}", "{:é<5}",
    "{:5é}", "é{", "{:-1}", "{:+5}", "{:#x}", "{:05}", "{:.2}", "{:5.2}", "{:^5}", "{:*^5}",
];
const PRINTS: &[&str] = &["print", "println", "eprint", "eprintln"];

pub struct P12 {
    specs: Vec<Spec>,
    /// reduced segment alphabet for multi-segment strings: literal texts and representative specifiers
    alpha: Vec<String>,
    alpha_specs: Vec<Option<Spec>>,
    vals: Vec<V>,
    lists: Vec<Vec<V>>,
    cases: Vec<Case>,
}

impl P12 {
    pub fn new(tier: Tier) -> P12 {
        let specs = all_specs();
        let vals = arg_values();
        let mut alpha: Vec<String> = vec!["a".into(), "é€".into(), "{{".into(), "}}".into(), " ".into()];
        let mut alpha_specs: Vec<Option<Spec>> = vec![None; alpha.len()];
        let reps = [
            "{}", "{0}", "{1}", "{2}", "{:5}", "{:0>5}", "{:*<5}", "{1:>3}", "{0:x}", "{:b}", "{2:X}", "{:o}", "{:-<12}", "{:3}", "{:_>1}", "{0:0>12b}", "{:<5}", "{:>5}",
            "{1:3x}", "{:x<5}", "{:b>5}", "{::<3}", "{: >5}", "{:9<3}", "{:0}", "{1:5o}",
        ];
        for r in reps {
            if let Some(sp) = specs.iter().find(|s| s.text == r) {
                alpha.push(r.to_string());
                alpha_specs.push(Some(sp.clone()));
            }
        }
        let lists: Vec<Vec<V>> = vec![
            vec![V::Int(5), V::Str("ab".into()), V::Int(255)],
            vec![],
            vec![V::Int(-3)],
            vec![V::Str("".into()), V::Float(1.5)],
            vec![V::Bool(true), V::Null, V::Char('c')],
            vec![V::Int(0), V::Int(i64::MAX), arr(vec![V::Int(1)])],
            vec![V::Str("wörld".into()), V::Int(7), V::Str("x".into())],
        ];
        let mut cases = vec![];
        for s in 0..specs.len() {
            for v in 0..vals.len() {
                cases.push(Case::Single(s, v));
            }
        }
        let n = alpha.len();
        let maxlen = tier.pick(3, 4);
        for len in 1..=maxlen {
            for i in 0..n.pow(len as u32) {
                let mut segs = vec![];
                let mut x = i;
                for _ in 0..len {
                    segs.push(x % n);
                    x /= n;
                }
                for l in 0..lists.len() {
                    if len == 4 && l > 2 {
                        continue;
                    }
                    cases.push(Case::Multi(segs.clone(), l));
                }
            }
        }
        for m in 0..MALFORMED.len() {
            cases.push(Case::Malformed(m));
        }
        for p in 0..PRINTS.len() {
            for len in 1..=2usize {
                for i in 0..n.pow(len as u32) {
                    let mut segs = vec![];
                    let mut x = i;
                    for _ in 0..len {
                        segs.push(x % n);
                        x /= n;
                    }
                    for l in 0..lists.len() {
                        cases.push(Case::Print(p, segs.clone(), l));
                    }
                }
            }
        }
        P12 { specs, alpha, alpha_specs, vals, lists, cases }
    }
    fn segs(&self, idxs: &[usize]) -> Vec<Seg> {
        idxs.iter().map(|i| match &self.alpha_specs[*i] { Some(sp) => Seg::Spec(sp.clone()), None => Seg::Lit(self.alpha[*i].clone()) }).collect()
    }
}

fn judge(fmt: &str, args: &[V], segs: &[Seg]) -> (String, Verdict) {
    let want = reference(segs, args);
    let got = call_format(fmt, args);
    let shown = format!("format({:?}{})", fmt, args.iter().map(|a| format!(", {}", a.to_src())).collect::<String>());
    match (got, want) {
        (Err(m), _) => ("panic".into(), Verdict::Violation(format!("{} panicked: {}", shown, one_line(&m, 160)))),
        (Ok(_), None) => ("unspecified".into(), Verdict::Skip("radix format of a negative or non-integer value / non-ASCII text in a padded specifier")),
        (Ok(Ok(g)), Some(Ok(w))) => {
            if g == w {
                ("ok".into(), Verdict::Pass)
            } else {
                ("wrong-text".into(), Verdict::Violation(format!("{} returned {:?} but the reference renderer gives {:?}", shown, g, w)))
            }
        }
        (Ok(Err(_)), Some(Err(()))) => ("missing-argument-error".into(), Verdict::Pass),
        (Ok(Ok(g)), Some(Err(()))) => ("missing-error".into(), Verdict::Violation(format!("{} returned {:?} although a specifier has no matching argument", shown, g))),
        (Ok(Err(e)), Some(Ok(w))) => ("spurious-error".into(), Verdict::Violation(format!("{} failed with '{}' but the reference renderer gives {:?}", shown, e, w))),
    }
}

impl Property for P12 {
    fn id(&self) -> &'static str {
        "C12"
    }
    fn len(&self) -> u64 {
        self.cases.len() as u64
    }
    fn describe(&self, idx: u64) -> Value {
        match &self.cases[idx as usize] {
            Case::Single(s, v) => json!({"format": format!("<{}>", self.specs[*s].text), "selected_argument": self.vals[*v].to_src()}),
            Case::Multi(segs, l) => json!({"format": fmt_text(&self.segs(segs)), "args": self.lists[*l].iter().map(|a| a.to_src()).collect::<Vec<_>>()}),
            Case::Malformed(m) => json!({"malformed": MALFORMED[*m]}),
            Case::Print(p, segs, l) => json!({"call": PRINTS[*p], "format": fmt_text(&self.segs(segs)), "args": self.lists[*l].iter().map(|a| a.to_src()).collect::<Vec<_>>()}),
        }
    }
    fn run(&self, idx: u64) -> CaseOut {
        match &self.cases[idx as usize] {
            Case::Single(s, v) => {
                let sp = &self.specs[*s];
                // the selected argument sits where the specifier looks for it; the other slots hold markers
                let mut args = vec![V::Str("M0".into()), V::Str("M1".into()), V::Str("M2".into())];
                // (an index beyond the three slots selects nothing: the specifier has no matching argument)
                if sp.index.unwrap_or(0) < args.len() {
                    args[sp.index.unwrap_or(0)] = self.vals[*v].clone();
                }
                let segs = vec![Seg::Lit("<".into()), Seg::Spec(sp.clone()), Seg::Lit(">".into())];
                let (o, verdict) = judge(&fmt_text(&segs), &args, &segs);
                let class = format!(
                    "single idx={} fill={} align={} width={} type={} arg={} -> {}",
                    sp.index.map(|i| i.to_string()).unwrap_or("-".into()),
                    sp.fill.map(|c| c.to_string()).unwrap_or("-".into()),
                    sp.align.map(|c| c.to_string()).unwrap_or("-".into()),
                    if sp.width > 0 { "w" } else { "0" },
                    sp.ty.map(|c| c.to_string()).unwrap_or("-".into()),
                    self.vals[*v].kind(),
                    o
                );
                CaseOut { class, verdict, states: 1, transitions: 1, traces: 1 }
            }
            Case::Multi(idxs, l) => {
                let segs = self.segs(idxs);
                let (o, verdict) = judge(&fmt_text(&segs), &self.lists[*l], &segs);
                CaseOut { class: format!("multi len={} args={} -> {}", idxs.len(), self.lists[*l].len(), o), verdict, states: 1, transitions: 1, traces: 1 }
            }
            Case::Malformed(m) => match call_format(MALFORMED[*m], &[V::Int(5), V::Str("ab".into())]) {
                Err(e) => CaseOut::viol("malformed panic", format!("format({:?}, 5, \"ab\") panicked: {}", MALFORMED[*m], e)),
                Ok(Ok(_)) => CaseOut::pass("malformed -> text"),
                Ok(Err(_)) => CaseOut::pass("malformed -> error"),
            },
            Case::Print(p, idxs, l) => {
                let segs = self.segs(idxs);
                let fmt = fmt_text(&segs);
                let args = &self.lists[*l];
                let name = PRINTS[*p];
                let shown = format!("{}({:?}{})", name, fmt, args.iter().map(|a| format!(", {}", a.to_src())).collect::<String>());
                // what format itself returns is the text the print family must write
                let want = match call_format(&fmt, args) {
                    Ok(r) => r,
                    Err(m) => return CaseOut::viol("print panic", format!("{}: format panicked: {}", shown, m)),
                };
                let f = builtin(name);
                let mut a = vec![Rc::new(Object::Str(fmt.clone()))];
                a.extend(args.iter().map(to_object));
                let mut result: Option<Result<Rc<Object>, String>> = None;
                let fd = if name.starts_with('e') { 2 } else { 1 };
                let bytes = capture_fd(fd, name, || {
                    result = guarded(move || f(a)).ok();
                });
                let nl = name.ends_with("ln");
                let class = format!("{} len={}", name, idxs.len());
                match (result, want) {
                    (None, _) => CaseOut::viol(format!("{} panic", class), format!("{} panicked", shown)),
                    (Some(Err(_)), Err(_)) => {
                        CaseOut::pass(format!("{} error", class))
                    }
                    (Some(Ok(r)), Ok(text)) => {
                        let mut expect = text.into_bytes();
                        if nl {
                            expect.push(b'\n');
                        }
                        let ret = canon(&r);
                        if bytes != expect {
                            CaseOut::viol(format!("{} wrong-output", class), format!("{} wrote {:?} but format gives {:?}", shown, String::from_utf8_lossy(&bytes), String::from_utf8_lossy(&expect)))
                        } else if ret != format!("i{}", expect.len()) {
                            CaseOut::viol(format!("{} wrong-length", class), format!("{} wrote {} bytes but returned {}", shown, expect.len(), ret))
                        } else {
                            CaseOut::pass(class)
                        }
                    }
                    (Some(Ok(r)), Err(e)) => CaseOut::viol(format!("{} missing-error", class), format!("{} returned {} although format fails with '{}'", shown, canon(&r), e)),
                    (Some(Err(e)), Ok(t)) => CaseOut::viol(format!("{} spurious-error", class), format!("{} failed with '{}' although format gives {:?}", shown, e, t)),
                }
            }
        }
    }
    fn rule(&self) -> String {
        format!("single: every specifier of the grammar index {:?} x (none | ':' (fill {:?} x align {:?} | no alignment) x width {:?} x type {:?}) = {} specifiers, between literal text, x the selected argument over {} values (other argument slots hold markers); multi: every string of <=3 (thorough 4) segments over an alphabet of {} (literal ASCII and non-ASCII text, {{{{, }}}}, space, 26 representative specifiers) x 7 argument lists (lengths 0-3); {} malformed strings (no crash only); print/println/eprint/eprintln on every string of <=2 segments x 7 argument lists with the process's stdout/stderr redirected into a file. Oracle: a reference renderer written from the statement (positional vs indexed consumption, default fill space, integers padded on the left and everything else on the right unless < or > is given, b/o/x/X of non-negative integers, missing argument => error); the plain text of non-integer, non-string values is taken from the implementation's own format(\"{{}}\", v); the print family must write exactly format's text (+ newline) and return its byte length", INDEXES, FILLS, ALIGNS, WIDTHS, TYPES, self.specs.len(), self.vals.len(), self.alpha.len(), MALFORMED.len())
    }
    fn bounds(&self) -> Value {
        json!({"specifiers": self.specs.len(), "segment_alphabet": self.alpha.len(), "cases": self.cases.len()})
    }
    fn assumptions(&self) -> Vec<String> {
        vec!["radix formats of negative or non-integer values, non-ASCII text in padded specifiers and malformed strings are outside the statement: counted as unspecified / no-crash only".into(),
             "format strings longer than the segment bound are not covered".into()]
    }
}
