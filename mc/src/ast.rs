//! The harness's own AST for the generated language subset, with a renderer to p2sh source.

use crate::refval::V;
use std::rc::Rc;

#[derive(Clone, Debug)]
pub enum E {
    Lit(V),
    Var(String),
    Arr(Vec<E>),
    MapLit(Vec<(E, E)>),
    Un(&'static str, Box<E>),
    Bin(&'static str, Box<E>, Box<E>),
    Index(Box<E>, Box<E>),
    Call(Box<E>, Vec<E>),
    /// target (Var or Index) = value
    Assign(Box<E>, Box<E>),
    If(Box<E>, Vec<S>, Option<Box<Else>>),
    Match(Box<E>, Vec<Arm>),
    Fn(Vec<String>, Rc<Vec<S>>),
}

#[derive(Clone, Debug)]
pub enum Else {
    Block(Vec<S>),
    /// must be an E::If
    ElseIf(E),
}

#[derive(Clone, Debug)]
pub enum Pat {
    Lit(V),
    /// lo, hi, inclusive
    Range(V, V, bool),
    Default,
}

#[derive(Clone, Debug)]
pub struct Arm {
    pub pats: Vec<Pat>,
    pub body: Vec<S>,
    /// render the body as a bare expression (`p => e,`) — only valid if body is one S::Expr
    pub bare: bool,
}

#[derive(Clone, Debug)]
pub enum S {
    Let(String, E),
    Expr(E),
    Block(Vec<S>),
    While(Option<String>, E, Vec<S>),
    Loop(Option<String>, Vec<S>),
    Break(Option<String>),
    Continue(Option<String>),
    Return(Option<E>),
    FnStmt(String, Vec<String>, Rc<Vec<S>>),
}

pub fn lit_i(i: i64) -> E {
    E::Lit(V::Int(i))
}
pub fn var(n: &str) -> E {
    E::Var(n.to_string())
}
pub fn call(f: &str, args: Vec<E>) -> E {
    E::Call(Box::new(var(f)), args)
}
pub fn bin(op: &'static str, a: E, b: E) -> E {
    E::Bin(op, Box::new(a), Box::new(b))
}
pub fn assign(t: E, v: E) -> E {
    E::Assign(Box::new(t), Box::new(v))
}
pub fn push_obs(e: E) -> S {
    S::Expr(call("push", vec![var("obs"), e]))
}

pub fn pat_src(p: &Pat) -> String {
    match p {
        Pat::Lit(v) => plit(v),
        Pat::Range(a, b, inc) => format!("{}{}{}", plit(a), if *inc { "..=" } else { ".." }, plit(b)),
        Pat::Default => "_".into(),
    }
}

/// literal syntax accepted in pattern position (bytes must be written b'c')
fn plit(v: &V) -> String {
    match v {
        V::Byte(b) if b.is_ascii_graphic() && *b != b'\'' => format!("b'{}'", *b as char),
        _ => v.to_src(),
    }
}

fn atom(e: &E) -> bool {
    matches!(e, E::Lit(_) | E::Var(_) | E::Arr(_) | E::Call(..) | E::Index(..))
}

/// Render with every compound operand parenthesised (grouping never depends on precedence).
pub fn expr_src(e: &E) -> String {
    match e {
        E::Lit(v) => v.to_src(),
        E::Var(n) => n.clone(),
        E::Arr(es) => format!("[{}]", es.iter().map(expr_src).collect::<Vec<_>>().join(", ")),
        E::MapLit(ps) => format!(
            "map {{{}}}",
            ps.iter().map(|(k, v)| format!("{}: {}", expr_src(k), expr_src(v))).collect::<Vec<_>>().join(", ")
        ),
        E::Un(op, a) => format!("{}{}", op, wrap(a)),
        E::Bin(op, a, b) => format!("{} {} {}", wrap(a), op, wrap(b)),
        E::Index(a, i) => format!("{}[{}]", wrap_callee(a), expr_src(i)),
        E::Call(f, args) => format!("{}({})", wrap_callee(f), args.iter().map(expr_src).collect::<Vec<_>>().join(", ")),
        E::Assign(t, v) => format!("{} = {}", expr_src(t), wrap_rhs(v)),
        E::If(c, t, el) => {
            let mut s = format!("if {} {{ {} }}", wrap(c), block_src(t));
            if let Some(el) = el {
                match el.as_ref() {
                    Else::Block(b) => s.push_str(&format!(" else {{ {} }}", block_src(b))),
                    Else::ElseIf(e) => s.push_str(&format!(" else {}", expr_src(e))),
                }
            }
            s
        }
        E::Match(s, arms) => {
            let mut out = format!("match {} {{ ", wrap(s));
            for a in arms {
                let pats = a.pats.iter().map(pat_src).collect::<Vec<_>>().join(" | ");
                if a.bare {
                    if let Some(S::Expr(e)) = a.body.first() {
                        out.push_str(&format!("{} => {}, ", pats, wrap(e)));
                        continue;
                    }
                }
                out.push_str(&format!("{} => {{ {} }} ", pats, block_src(&a.body)));
            }
            out.push('}');
            out
        }
        E::Fn(ps, body) => format!("fn({}) {{ {} }}", ps.join(", "), block_src(body)),
    }
}

fn wrap(e: &E) -> String {
    if atom(e) {
        expr_src(e)
    } else {
        format!("({})", expr_src(e))
    }
}
fn wrap_callee(e: &E) -> String {
    match e {
        E::Var(_) | E::Call(..) | E::Index(..) => expr_src(e),
        _ => format!("({})", expr_src(e)),
    }
}
fn wrap_rhs(e: &E) -> String {
    match e {
        E::Assign(..) => expr_src(e),
        _ => wrap(e),
    }
}

pub fn stmt_src(s: &S) -> String {
    match s {
        S::Let(n, e) => format!("let {} = {};", n, expr_src(e)),
        S::Expr(e) => format!("{};", expr_src(e)),
        S::Block(b) => format!("{{ {} }}", block_src(b)),
        S::While(l, c, b) => format!("{}while {} {{ {} }}", label(l), wrap(c), block_src(b)),
        S::Loop(l, b) => format!("{}loop {{ {} }}", label(l), block_src(b)),
        S::Break(l) => match l {
            Some(l) => format!("break {};", l),
            None => "break;".into(),
        },
        S::Continue(l) => match l {
            Some(l) => format!("continue {};", l),
            None => "continue;".into(),
        },
        S::Return(e) => match e {
            Some(e) => format!("return {};", expr_src(e)),
            None => "return;".into(),
        },
        S::FnStmt(n, ps, b) => format!("fn {}({}) {{ {} }}", n, ps.join(", "), block_src(b)),
    }
}
fn label(l: &Option<String>) -> String {
    match l {
        Some(l) => format!("{}: ", l),
        None => String::new(),
    }
}
pub fn block_src(b: &[S]) -> String {
    b.iter().map(stmt_src).collect::<Vec<_>>().join(" ")
}
pub fn program_src(p: &[S]) -> String {
    b_lines(p)
}
fn b_lines(b: &[S]) -> String {
    b.iter().map(stmt_src).collect::<Vec<_>>().join("\n")
}
