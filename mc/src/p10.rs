//! C10 — map lookups are consistent with value equality.
//! (i) all ordered key pairs x access paths, oracle = the VM's own `k1 == k2` (differential);
//! (ii) explicit-state BFS to a fixpoint over insert/overwrite histories on mutually colliding keys,
//!      against an association list, probing the real map with every key after every transition.

use crate::fw::*;
use crate::p09::eval_with_operands;
use crate::refval::*;
use crate::subject::*;
use serde_json::{json, Value};
use std::collections::{BTreeSet, VecDeque};

pub fn key_domain() -> Vec<V> {
    key_domain_for(Tier::Quick)
}
pub fn key_domain_for(tier: Tier) -> Vec<V> {
    let p53 = 1i64 << 53;
    let mut k = vec![];
    if tier == Tier::Thorough {
        // the ends of the integer range and the doubles they round to, more nesting, mixed two-element arrays
        for i in [i64::MAX, i64::MIN, i64::MAX - 1, p53 - 1, -p53, -p53 - 1, 255, 256, 97] {
            k.push(V::Int(i));
        }
        for f in [9223372036854775808.0, -9223372036854775808.0, -(p53 as f64), 255.0, 97.0, f64::INFINITY, f64::NEG_INFINITY, 5e-324, -1.5] {
            k.push(V::Float(f));
        }
        k.push(V::Byte(255));
        k.push(V::Byte(97));
        k.push(V::Char('\0'));
        k.push(V::Str("\0".into()));
        k.push(V::Str("len".into()));
        k.push(arr(vec![V::Int(1), V::Float(0.0)]));
        k.push(arr(vec![V::Float(1.0), V::Float(-0.0)]));
        k.push(arr(vec![V::Float(1.0), V::Int(0)]));
        k.push(arr(vec![arr(vec![arr(vec![V::Float(-0.0)])])]));
        k.push(arr(vec![arr(vec![arr(vec![V::Int(0)])])]));
        k.push(arr(vec![V::Null]));
        k.push(arr(vec![V::Byte(1)]));
        k.push(arr(vec![V::Bool(true)]));
        k.push(arr(vec![V::Str("a".into()), V::Int(1)]));
    }
    for i in [0, 1, -1, p53, p53 + 1] {
        k.push(V::Int(i));
    }
    for f in [0.0, -0.0, 1.0, -1.0, 1.5, f64::NAN, p53 as f64] {
        k.push(V::Float(f));
    }
    k.push(V::Byte(0));
    k.push(V::Byte(1));
    k.push(V::Char('a'));
    k.push(V::Char('1'));
    for s in ["", "1", "a"] {
        k.push(V::Str(s.into()));
    }
    k.push(V::Bool(true));
    k.push(V::Bool(false));
    k.push(V::Null);
    k.push(V::Builtin("len"));
    k.push(V::Builtin("first"));
    k.push(arr(vec![]));
    k.push(arr(vec![V::Int(1)]));
    k.push(arr(vec![V::Float(1.0)]));
    k.push(arr(vec![V::Float(0.0)]));
    k.push(arr(vec![V::Float(-0.0)]));
    k.push(arr(vec![arr(vec![V::Int(1)])]));
    k.push(arr(vec![arr(vec![V::Float(1.0)])]));
    k.push(arr(vec![V::Int(1), V::Str("a".into())]));
    k.push(arr(vec![V::Float(f64::NAN)]));
    k.push(arr(vec![V::Int(0)]));
    k
}

/// the access paths compared for one (k1, k2) pair: (program over globals a=k1, b=k2, result if same, result if different)
fn pair_programs() -> Vec<(&'static str, &'static str, &'static str)> {
    // results are canonical strings; "ERR" = runtime error expected
    vec![
        ("let m = map {a: 10}; m[b]", "i10", "ERR"),
        ("get(map {a: 10}, b)", "i10", "null"),
        ("contains(map {a: 10}, b)", "true", "false"),
        ("insert(map {a: 10}, b, 20)", "i10", "null"),
        ("let m = map {}; insert(m, a, 10); m[b]", "i10", "ERR"),
        ("let m = map {}; m[a] = 10; get(m, b)", "i10", "null"),
        ("let m = map {}; m[a] = 10; contains(m, b)", "true", "false"),
        ("let m = map {}; insert(m, a, 10); insert(m, b, 20)", "i10", "null"),
        ("len(map {a: 1, b: 2})", "i1", "i2"),
        ("let m = map {a: 10}; m[b] = 20; [get(m, a), len(m)]", "[i20,i1]", "[i10,i2]"),
        ("let m = map {a: 10}; insert(m, b, 20); [m[a], m[b], len(m)]", "[i20,i20,i1]", "[i10,i20,i2]"),
        ("get(map {a: 1, b: 2}, b)", "i2", "i2"),
        // a present key whose value is null is still present
        ("let m = map {a: null}; [m[b], contains(m, b), len(m)]", "[null,true,i1]", "ERR"),
        ("let m = map {a: 10}; m[b] = null; [m[a], len(m)]", "[null,i1]", "[i10,i2]"),
    ]
}

const HKEYS_ALL: &[&str] = &["1", "1.0", "0.0", "(-0.0)", "[1]", "[1.0]", "\"1\"", "true", "[[0.0]]", "[[(-0.0)]]", "[[0]]"];
fn hkeys(tier: Tier) -> &'static [&'static str] {
    &HKEYS_ALL[..tier.pick(8, 11)]
}
fn hkey_vals(tier: Tier) -> Vec<V> {
    let mut v = hkey_vals_all();
    v.truncate(tier.pick(8, 11));
    v
}
fn hkey_vals_all() -> Vec<V> {
    vec![
        // (the last three are thorough-only)
        V::Int(1),
        V::Float(1.0),
        V::Float(0.0),
        V::Float(-0.0),
        arr(vec![V::Int(1)]),
        arr(vec![V::Float(1.0)]),
        V::Str("1".into()),
        V::Bool(true),
        arr(vec![arr(vec![V::Float(0.0)])]),
        arr(vec![arr(vec![V::Float(-0.0)])]),
        arr(vec![arr(vec![V::Int(0)])]),
    ]
}

#[derive(Clone, Copy, PartialEq, Eq, PartialOrd, Ord, Debug)]
struct Op {
    via_index: bool,
    key: usize,
    val: i64,
}

pub struct P10 {
    keys: Vec<V>,
    tier: Tier,
}
impl P10 {
    pub fn new(tier: Tier) -> P10 {
        P10 { keys: key_domain_for(tier), tier }
    }
    fn npairs(&self) -> u64 {
        (self.keys.len() * self.keys.len()) as u64
    }
}

fn history_src(h: &[Op]) -> String {
    #[allow(non_snake_case)]
    let HKEYS = HKEYS_ALL;
    let mut s = String::from("let m = map {};\n");
    for o in h {
        if o.via_index {
            s.push_str(&format!("m[{}] = {};\n", HKEYS[o.key], o.val));
        } else {
            s.push_str(&format!("insert(m, {}, {});\n", HKEYS[o.key], o.val));
        }
    }
    s
}

fn probe_src(tier: Tier) -> String {
    #[allow(non_snake_case)]
    let HKEYS = hkeys(tier);
    // observe every key through every read path, plus len
    let mut parts = vec![];
    for k in HKEYS {
        parts.push(format!("get(m, {})", k));
        parts.push(format!("contains(m, {})", k));
    }
    parts.push("len(m)".into());
    format!("[{}]", parts.join(", "))
}

/// association-list model keyed by the reference equality; returns model after op and the value `insert` returns
fn model_apply(m: &mut Vec<(usize, i64)>, o: &Op, eqm: &Vec<Vec<bool>>) -> Option<i64> {
    for e in m.iter_mut() {
        if eqm[e.0][o.key] {
            let old = e.1;
            e.1 = o.val;
            return Some(old);
        }
    }
    m.push((o.key, o.val));
    None
}
fn model_probe(m: &Vec<(usize, i64)>, eqm: &Vec<Vec<bool>>) -> String {
    let mut parts = vec![];
    for k in 0..eqm.len() {
        let hit = m.iter().find(|e| eqm[e.0][k]);
        parts.push(match hit {
            Some(e) => format!("i{}", e.1),
            None => "null".into(),
        });
        parts.push(format!("{}", hit.is_some()));
    }
    parts.push(format!("i{}", m.len()));
    format!("[{}]", parts.join(","))
}

impl Property for P10 {
    fn id(&self) -> &'static str {
        "C10"
    }
    fn len(&self) -> u64 {
        self.npairs() + 1
    }
    fn workers(&self) -> usize {
        16
    }
    fn describe(&self, idx: u64) -> Value {
        if idx < self.npairs() {
            let n = self.keys.len() as u64;
            let v = unrank(idx, &[n, n]);
            json!({"k1": self.keys[v[1] as usize].to_src(), "k2": self.keys[v[0] as usize].to_src(),
                   "programs": pair_programs().iter().map(|p| p.0).collect::<Vec<_>>()})
        } else {
            json!({"bfs": "insert(m,k,v) / m[k]=v histories to a fixpoint", "keys": hkeys(self.tier), "values": [10, 20]})
        }
    }
    fn run(&self, idx: u64) -> CaseOut {
        if idx < self.npairs() {
            let n = self.keys.len() as u64;
            let v = unrank(idx, &[n, n]);
            let (a, b) = (&self.keys[v[1] as usize], &self.keys[v[0] as usize]);
            // oracle: the VM's own equality
            let same = match eval_with_operands("a == b", a, b) {
                Ok(Outcome::Value(s)) if s == "true" => true,
                Ok(Outcome::Value(s)) if s == "false" => false,
                other => return CaseOut::viol("eq", format!("{} == {} did not evaluate to a boolean: {:?}", a.to_src(), b.to_src(), other)),
            };
            // sanity: where the statement defines equality the VM agrees with the reference (reported, not assumed)
            if let Some(r) = eq(a, b) {
                if r != same {
                    return CaseOut::viol(
                        format!("{}=={} eq-mismatch", a.kind(), b.kind()),
                        format!("{} == {} is {} in the VM but {} by the statement's notion of equality", a.to_src(), b.to_src(), same, r),
                    );
                }
            }
            let class = format!("{} vs {} ({})", a.kind(), b.kind(), if same { "equal" } else { "different" });
            let mut runs = 1;
            for (prog, if_same, if_diff) in pair_programs() {
                runs += 1;
                let mut want = if same { if_same } else { if_diff };
                // NaN is not a valid key (it is not equal to itself): a program that uses it as one must stop with an error
                let is_nan = |v: &V| matches!(v, V::Float(f) if f.is_nan());
                let uses_a_as_key = prog.contains("{a:") || prog.contains("m[a]") || prog.contains("insert(m, a");
                let uses_b_as_key = true; // every access program looks b up or inserts it
                if (is_nan(a) && uses_a_as_key) || (is_nan(b) && uses_b_as_key) {
                    // get/contains with an invalid key may also answer null/false; an insertion or index must fail
                    want = "ERR";
                }
                let got = eval_with_operands(prog, a, b);
                let lookup_only_b = is_nan(b) && !is_nan(a) && (prog.starts_with("get(") || prog.starts_with("contains(") || prog.ends_with("get(m, b)") || prog.ends_with("contains(m, b)"));
                let ok = match &got {
                    Ok(Outcome::Value(g)) if lookup_only_b => g == "null" || g == "false" || g == "i2",
                    Ok(Outcome::Value(g)) => g == want,
                    Ok(Outcome::RtErr(..)) => want == "ERR",
                    _ => false,
                };
                if !ok {
                    return CaseOut::viol(
                        class,
                        format!("k1={} k2={} (k1==k2 is {}): `{}` gave {:?}, expected {}", a.to_src(), b.to_src(), same, prog, got, want),
                    )
                    .with_counts(1, runs, runs);
                }
            }
            CaseOut::pass(class).with_counts(1, runs, runs)
        } else {
            // BFS over histories; state = the model's association list *with the stored key object*
            let hk = hkey_vals(self.tier);
            #[allow(non_snake_case)]
            let HKEYS = HKEYS_ALL;
            let mut eqm = vec![vec![false; hk.len()]; hk.len()];
            for i in 0..hk.len() {
                for j in 0..hk.len() {
                    eqm[i][j] = eq(&hk[i], &hk[j]).expect("specified");
                }
            }
            let mut ops = vec![];
            for via in [false, true] {
                for key in 0..hk.len() {
                    for val in [10, 20] {
                        ops.push(Op { via_index: via, key, val });
                    }
                }
            }
            let probes = probe_src(self.tier);
            let mut seen: BTreeSet<Vec<(usize, i64)>> = BTreeSet::new();
            let mut frontier: VecDeque<(Vec<Op>, Vec<(usize, i64)>)> = VecDeque::new();
            seen.insert(vec![]);
            frontier.push_back((vec![], vec![]));
            let (mut states, mut transitions) = (1u64, 0u64);
            let max_depth = self.tier.pick(6, 14);
            let mut deepest = 0;
            while let Some((hist, model)) = frontier.pop_front() {
                if hist.len() >= max_depth {
                    continue;
                }
                for o in &ops {
                    let mut h2 = hist.clone();
                    h2.push(*o);
                    let mut m2 = model.clone();
                    let ret = model_apply(&mut m2, o, &eqm);
                    transitions += 1;
                    // fresh real map, history replayed on the real code, last op's return value observed
                    let mut src = history_src(&hist);
                    let last = if o.via_index {
                        format!("let r = (m[{}] = {});\n", HKEYS[o.key], o.val)
                    } else {
                        format!("let r = insert(m, {}, {});\n", HKEYS[o.key], o.val)
                    };
                    src.push_str(&last);
                    src.push_str(&format!("[r, {}]", probes));
                    let want_r = if o.via_index {
                        format!("i{}", o.val)
                    } else {
                        match ret {
                            Some(x) => format!("i{}", x),
                            None => "null".into(),
                        }
                    };
                    let want = format!("[{},{}]", want_r, model_probe(&m2, &eqm));
                    let got = guarded(|| run_src(&src).outcome);
                    match &got {
                        Ok(Outcome::Value(g)) if *g == want => {}
                        _ => {
                            return CaseOut::viol(
                                "bfs",
                                format!("after history\n{}observed {:?}\nbut the association-list model gives {}", src, got, want),
                            )
                            .with_counts(states, transitions, transitions)
                        }
                    }
                    let mut key = m2.clone();
                    key.sort();
                    if seen.insert(key) {
                        states += 1;
                        deepest = deepest.max(h2.len());
                        frontier.push_back((h2, m2));
                    }
                }
            }
            CaseOut::pass(format!("bfs fixpoint depth {}", deepest)).with_counts(states, transitions, transitions)
        }
    }
    fn rule(&self) -> String {
        format!("(i) all {}^2 ordered pairs of a {}-key domain (ints incl. 2^53+1, integral/non-integral floats, +-0.0, NaN, bytes, chars, strings, bools, null, builtins, nested arrays) x 14 access programs (literal vs insert/index-assignment population; m[k], get, contains, insert's return value, len, overwrite); oracle: same entry iff the VM's own k1 == k2 (NaN, which is not equal to itself, must be refused as a key); (ii) one breadth-first search over histories of insert(m,k,v) and m[k]=v with {} mutually colliding keys {:?} x 2 values, states canonicalised as the association list including which key object is stored, run to a fixpoint; after every transition the real map (fresh object, history replayed on the real code) is probed with every key via get/contains and len and compared with the model", self.keys.len(), self.keys.len(), hkeys(self.tier).len(), hkeys(self.tier))
    }
    fn bounds(&self) -> Value {
        json!({"keys": self.keys.len(), "history_keys": hkeys(self.tier).len(), "history_values": 2, "bfs": "fixpoint (depth cap 6 quick / 14 thorough, not reached if the evidence class says so)"})
    }
    fn assumptions(&self) -> Vec<String> {
        vec!["canonical state = association list with stored key objects: sound because a map's future behaviour is a function of its stored (key, value) pairs".into(),
             "keys outside the enumerated domain are not covered".into()]
    }
}
