//! Shared exploration framework.
//!
//! Every property is an *indexed finite space of cases* plus a per-case checker that runs the
//! real code. The parent process shards the index space over worker subprocesses (re-executions
//! of this binary), so that a panic is caught in-process (catch_unwind) and an abort, a stack
//! exhaustion or a hang is attributed to exactly one case by the parent (progress file +
//! watchdog). Nothing is sampled: a run is `exhaustive` iff every index was executed.

use serde_json::{json, Value};
use std::collections::BTreeMap;
use std::io::Write;
use std::os::unix::fs::FileExt;
use std::path::{Path, PathBuf};
use std::process::{Command, Stdio};
use std::time::{Duration, Instant};

#[derive(Clone, Copy, PartialEq, Eq, Debug)]
pub enum Tier {
    Quick,
    Thorough,
}
impl Tier {
    pub fn name(self) -> &'static str {
        match self {
            Tier::Quick => "quick",
            Tier::Thorough => "thorough",
        }
    }
    pub fn parse(s: &str) -> Option<Tier> {
        match s {
            "quick" => Some(Tier::Quick),
            "thorough" => Some(Tier::Thorough),
            _ => None,
        }
    }
    pub fn pick<T>(self, q: T, t: T) -> T {
        match self {
            Tier::Quick => q,
            Tier::Thorough => t,
        }
    }
}

#[derive(Clone, Debug)]
pub enum Verdict {
    Pass,
    /// the case lies in a corner the property leaves unspecified; counted, not judged
    Skip(&'static str),
    /// deviation explained exactly by a defect model whose id is listed `known`
    Known(String),
    Violation(String),
}

#[derive(Clone, Debug)]
pub struct CaseOut {
    /// (case-class, outcome-class) label used to count distinct non-trivial behaviours.
    /// Labels starting with "trivial" are not counted as non-trivial.
    pub class: String,
    pub verdict: Verdict,
    pub states: u64,
    pub transitions: u64,
    /// executions of the real implementation performed for this case
    pub traces: u64,
}
impl CaseOut {
    pub fn pass(class: impl Into<String>) -> CaseOut {
        CaseOut { class: class.into(), verdict: Verdict::Pass, states: 1, transitions: 1, traces: 1 }
    }
    pub fn skip(class: impl Into<String>, why: &'static str) -> CaseOut {
        CaseOut { class: class.into(), verdict: Verdict::Skip(why), states: 1, transitions: 1, traces: 1 }
    }
    pub fn viol(class: impl Into<String>, msg: impl Into<String>) -> CaseOut {
        CaseOut {
            class: class.into(),
            verdict: Verdict::Violation(msg.into()),
            states: 1,
            transitions: 1,
            traces: 1,
        }
    }
    pub fn with_counts(mut self, states: u64, transitions: u64, traces: u64) -> CaseOut {
        self.states = states;
        self.transitions = transitions;
        self.traces = traces;
        self
    }
}

pub trait Property {
    fn id(&self) -> &'static str;
    /// evidence level ("model_checking" or "fault_enumeration")
    fn level(&self) -> &'static str {
        "model_checking"
    }
    /// number of cases for the tier (the space must be enumerated deterministically)
    fn len(&self) -> u64;
    /// human-readable rendering of case `idx` (goes into replay files and samples)
    fn describe(&self, idx: u64) -> Value;
    /// run the real implementation on case `idx` and judge it
    fn run(&self, idx: u64) -> CaseOut;
    /// verdict for a case on which the worker process died or hung
    fn crash_verdict(&self, _idx: u64, how: &str) -> Verdict {
        Verdict::Violation(how.to_string())
    }
    fn rule(&self) -> String;
    fn bounds(&self) -> Value;
    fn assumptions(&self) -> Vec<String> {
        vec![]
    }
    /// per-case wall-clock horizon in seconds (non-termination becomes visible here)
    fn horizon_secs(&self) -> u64 {
        20
    }
    /// cases are executed by worker subprocesses unless this returns false
    fn workers(&self) -> usize {
        std::thread::available_parallelism().map(|n| n.get()).unwrap_or(4)
    }
}

// ---------------------------------------------------------------------------------------------
// known findings

#[derive(Clone, Debug, Default)]
pub struct KnownFindings {
    /// id -> (property, what)
    pub known: BTreeMap<String, (String, String)>,
}
impl KnownFindings {
    pub fn load() -> KnownFindings {
        let path = verif_dir().join("known_findings.json");
        let mut k = KnownFindings::default();
        if let Ok(txt) = std::fs::read_to_string(&path) {
            if let Ok(v) = serde_json::from_str::<Value>(&txt) {
                if let Some(arr) = v.get("findings").and_then(|a| a.as_array()) {
                    for f in arr {
                        if f.get("status").and_then(|s| s.as_str()) == Some("known") {
                            let id = f.get("id").and_then(|s| s.as_str()).unwrap_or("").to_string();
                            let prop = f.get("property").and_then(|s| s.as_str()).unwrap_or("").to_string();
                            let what = f.get("what").and_then(|s| s.as_str()).unwrap_or("").to_string();
                            if !id.is_empty() {
                                k.known.insert(id, (prop, what));
                            }
                        }
                    }
                }
            }
        }
        k
    }
    /// A defect model may only excuse a deviation if its id is listed `known` for that property.
    pub fn listed(&self, prop: &str, id: &str) -> bool {
        self.known.get(id).map(|(p, _)| p == prop).unwrap_or(false)
    }
}

thread_local! {
    static KNOWN: std::cell::RefCell<Option<KnownFindings>> = std::cell::RefCell::new(None);
}
pub fn known_listed(prop: &str, id: &str) -> bool {
    KNOWN.with(|k| {
        let mut k = k.borrow_mut();
        if k.is_none() {
            *k = Some(KnownFindings::load());
        }
        k.as_ref().unwrap().listed(prop, id)
    })
}
/// Turn a deviation into Known(id) if `id` is listed for `prop`, else into a Violation.
pub fn known_or_violation(prop: &str, id: &str, msg: String) -> Verdict {
    if known_listed(prop, id) {
        Verdict::Known(id.to_string())
    } else {
        Verdict::Violation(msg)
    }
}

pub fn verif_dir() -> PathBuf {
    std::env::var("VERIF_DIR").map(PathBuf::from).unwrap_or_else(|_| PathBuf::from("/verif"))
}
pub fn cache_dir() -> PathBuf {
    let d = verif_dir().join(".cache");
    let _ = std::fs::create_dir_all(&d);
    d
}
/// Root of this run's scratch files: a per-run directory (removed by the parent at the end of the run) on
/// tmpfs when /dev/shm is usable — the checks rewrite small pcap files millions of times and a journalling
/// file system turns every truncate-and-rewrite into a synchronous flush — else under /verif/.cache.
pub fn scratch_root() -> PathBuf {
    if let Ok(r) = std::env::var("MC_SCRATCH_ROOT") {
        return PathBuf::from(r);
    }
    let shm = Path::new("/dev/shm");
    let base = if shm.is_dir() && std::fs::create_dir_all(shm.join("p2sh-verif")).is_ok() { shm.join("p2sh-verif") } else { cache_dir().join("scratch") };
    let root = base.join(format!("run-{}", std::process::id()));
    let _ = std::fs::create_dir_all(&root);
    std::env::set_var("MC_SCRATCH_ROOT", &root);
    root
}
pub fn remove_scratch_root() {
    if let Ok(r) = std::env::var("MC_SCRATCH_ROOT") {
        let _ = std::fs::remove_dir_all(r);
    }
}
pub fn scratch_dir(tag: &str) -> PathBuf {
    let d = scratch_root().join(format!("{}-{}", tag, std::process::id()));
    let _ = std::fs::create_dir_all(&d);
    d
}

// ---------------------------------------------------------------------------------------------
// summaries

#[derive(Default, Debug, Clone)]
pub struct Summary {
    pub evaluations: u64,
    pub states: u64,
    pub transitions: u64,
    pub traces: u64,
    pub classes: BTreeMap<String, u64>,
    pub skipped: BTreeMap<String, u64>,
    /// finding id -> (count, example idx)
    pub known: BTreeMap<String, (u64, u64)>,
    pub violations_total: u64,
    /// cases on which the machinery itself failed (model/implementation mismatch, harness error): never a verdict
    pub machinery: Vec<String>,
    /// (idx, message), capped
    pub violations: Vec<(u64, String)>,
    /// class -> (count, smallest idx, message of that case)
    pub viol_kinds: BTreeMap<String, (u64, u64, String)>,
}
const VIOL_CAP: usize = 40;
impl Summary {
    pub fn add(&mut self, idx: u64, out: &CaseOut) {
        self.evaluations += 1;
        self.states += out.states;
        self.transitions += out.transitions;
        self.traces += out.traces;
        *self.classes.entry(out.class.clone()).or_insert(0) += 1;
        match &out.verdict {
            Verdict::Pass => {}
            Verdict::Skip(w) => *self.skipped.entry(w.to_string()).or_insert(0) += 1,
            Verdict::Known(id) => {
                let e = self.known.entry(id.clone()).or_insert((0, idx));
                e.0 += 1;
            }
            Verdict::Violation(m) if m.starts_with("MACHINERY:") => {
                if self.machinery.len() < 20 {
                    self.machinery.push(format!("case #{}: {}", idx, m));
                }
            }
            Verdict::Violation(m) => {
                self.violations_total += 1;
                let key: String = out.class.clone();
                let fresh = !self.viol_kinds.contains_key(&key);
                if self.viol_kinds.len() < 400 || !fresh {
                    let e = self.viol_kinds.entry(key).or_insert((0, idx, m.clone()));
                    e.0 += 1;
                }
                // keep the first example of every kind, then fill up to the cap
                if fresh || self.violations.len() < VIOL_CAP / 2 {
                    if self.violations.len() < VIOL_CAP {
                        self.violations.push((idx, m.clone()));
                    }
                }
            }
        }
    }
    pub fn merge(&mut self, o: &Summary) {
        self.evaluations += o.evaluations;
        self.states += o.states;
        self.transitions += o.transitions;
        self.traces += o.traces;
        for (k, v) in &o.classes {
            *self.classes.entry(k.clone()).or_insert(0) += v;
        }
        for (k, v) in &o.skipped {
            *self.skipped.entry(k.clone()).or_insert(0) += v;
        }
        for (k, v) in &o.known {
            let e = self.known.entry(k.clone()).or_insert((0, v.1));
            e.0 += v.0;
            e.1 = e.1.min(v.1);
        }
        self.violations_total += o.violations_total;
        for m in &o.machinery {
            if self.machinery.len() < 20 {
                self.machinery.push(m.clone());
            }
        }
        for v in &o.violations {
            if self.violations.len() < VIOL_CAP {
                self.violations.push(v.clone());
            }
        }
        for (k, v) in &o.viol_kinds {
            let e = self.viol_kinds.entry(k.clone()).or_insert((0, v.1, v.2.clone()));
            e.0 += v.0;
            if v.1 < e.1 {
                e.1 = v.1;
                e.2 = v.2.clone();
            }
        }
    }
    pub fn to_json(&self) -> Value {
        json!({
            "evaluations": self.evaluations, "states": self.states, "transitions": self.transitions,
            "traces": self.traces, "classes": self.classes, "skipped": self.skipped,
            "known": self.known.iter().map(|(k,v)| (k.clone(), json!([v.0, v.1]))).collect::<BTreeMap<_,_>>(),
            "violations_total": self.violations_total,
            "machinery": self.machinery,
            "violations": self.violations.iter().map(|(i,m)| json!([i, m])).collect::<Vec<_>>(),
            "viol_kinds": self.viol_kinds.iter().map(|(k,v)| (k.clone(), json!([v.0, v.1, v.2]))).collect::<BTreeMap<_,_>>(),
        })
    }
    pub fn from_json(v: &Value) -> Option<Summary> {
        let mut s = Summary::default();
        s.evaluations = v.get("evaluations")?.as_u64()?;
        s.states = v.get("states")?.as_u64()?;
        s.transitions = v.get("transitions")?.as_u64()?;
        s.traces = v.get("traces")?.as_u64()?;
        for (k, c) in v.get("classes")?.as_object()? {
            s.classes.insert(k.clone(), c.as_u64()?);
        }
        for (k, c) in v.get("skipped")?.as_object()? {
            s.skipped.insert(k.clone(), c.as_u64()?);
        }
        for (k, c) in v.get("known")?.as_object()? {
            s.known.insert(k.clone(), (c.get(0)?.as_u64()?, c.get(1)?.as_u64()?));
        }
        s.violations_total = v.get("violations_total")?.as_u64()?;
        for x in v.get("machinery")?.as_array()? {
            s.machinery.push(x.as_str()?.to_string());
        }
        for x in v.get("violations")?.as_array()? {
            s.violations.push((x.get(0)?.as_u64()?, x.get(1)?.as_str()?.to_string()));
        }
        for (k, c) in v.get("viol_kinds")?.as_object()? {
            s.viol_kinds.insert(k.clone(), (c.get(0)?.as_u64()?, c.get(1)?.as_u64()?, c.get(2)?.as_str()?.to_string()));
        }
        Some(s)
    }
}

// ---------------------------------------------------------------------------------------------
// in-process execution helpers

pub fn silence_panics() {
    std::panic::set_hook(Box::new(|_| {}));
}

/// Run `f` under catch_unwind; Err carries the panic message.
pub fn guarded<T>(f: impl FnOnce() -> T) -> Result<T, String> {
    match std::panic::catch_unwind(std::panic::AssertUnwindSafe(f)) {
        Ok(v) => Ok(v),
        Err(e) => {
            let msg = if let Some(s) = e.downcast_ref::<&str>() {
                s.to_string()
            } else if let Some(s) = e.downcast_ref::<String>() {
                s.clone()
            } else {
                "panic".to_string()
            };
            Err(msg)
        }
    }
}

// ---------------------------------------------------------------------------------------------
// worker side

/// Executes positions [from, to) of shard `shard`/`of` (case idx = shard + of * pos) and prints
/// one JSON summary line. Before each case the position is written to the progress file.
pub fn worker_main(p: &dyn Property, shard: u64, of: u64, from: u64, to: u64, progress: &Path) {
    silence_panics();
    let f = std::fs::OpenOptions::new().create(true).write(true).open(progress).expect("progress file");
    let mut sum = Summary::default();
    let total = p.len();
    let mut pos = from;
    loop {
        let idx = shard + of * pos;
        if idx >= total || pos >= to {
            break;
        }
        let _ = f.write_at(&pos.to_le_bytes(), 0);
        let out = match guarded(|| p.run(idx)) {
            Ok(o) => o,
            Err(m) => CaseOut {
                class: "harness-panic".into(),
                verdict: Verdict::Violation(format!("panic escaped the case runner: {}", m)),
                states: 1,
                transitions: 1,
                traces: 1,
            },
        };
        sum.add(idx, &out);
        pos += 1;
    }
    let _ = f.write_at(&u64::MAX.to_le_bytes(), 0);
    let line = json!({"summary": sum.to_json(), "from": from, "to_pos": pos});
    let stdout = std::io::stdout();
    let mut h = stdout.lock();
    // the subject may have left an unterminated line on stdout (print without newline)
    let _ = writeln!(h, "\n@@MC-SUMMARY@@{}", line);
    let _ = h.flush();
}

// ---------------------------------------------------------------------------------------------
// parent side

const MAX_DEATHS_PER_SHARD: u32 = 3;

struct ShardResult {
    sum: Summary,
    /// Some(n): the shard was abandoned after MAX_DEATHS_PER_SHARD dying cases with n cases left
    stopped_early: Option<u64>,
    /// cases on which the worker died / hung: (idx, how)
    crashes: Vec<(u64, String)>,
    machinery_errors: Vec<String>,
    /// cases that overran the horizon once but completed when re-run alone with a longer one
    slow_confirmed: u64,
}

fn read_progress(path: &Path) -> Option<u64> {
    let f = std::fs::File::open(path).ok()?;
    let mut b = [0u8; 8];
    f.read_at(&mut b, 0).ok()?;
    Some(u64::from_le_bytes(b))
}

fn run_child(
    exe: &Path,
    id: &str,
    tier: Tier,
    shard: u64,
    of: u64,
    from: u64,
    to: u64,
    progress: &Path,
    horizon: u64,
) -> (Option<Summary>, Option<(u64, String)>, Option<String>) {
    // returns (summary if completed, crash (pos, how), machinery error)
    let _ = std::fs::remove_file(progress);
    let mut child = match Command::new(exe)
        .args([
            "worker",
            id,
            tier.name(),
            &shard.to_string(),
            &of.to_string(),
            &from.to_string(),
            &to.to_string(),
            progress.to_str().unwrap(),
        ])
        .env("RUST_BACKTRACE", "0")
        .stdin(Stdio::null())
        .stdout(Stdio::piped())
        .stderr(Stdio::piped())
        .spawn()
    {
        Ok(c) => c,
        Err(e) => return (None, None, Some(format!("spawn failed: {}", e))),
    };
    // drain stdout/stderr in threads so the child never blocks on a full pipe
    let mut so = child.stdout.take().unwrap();
    let mut se = child.stderr.take().unwrap();
    let t_out = std::thread::spawn(move || {
        let mut s = Vec::new();
        let _ = std::io::Read::read_to_end(&mut so, &mut s);
        s
    });
    let t_err = std::thread::spawn(move || {
        let mut s = Vec::new();
        // keep only a bounded tail of stderr
        let mut buf = [0u8; 65536];
        loop {
            match std::io::Read::read(&mut se, &mut buf) {
                Ok(0) | Err(_) => break,
                Ok(n) => {
                    s.extend_from_slice(&buf[..n]);
                    if s.len() > 1 << 20 {
                        let cut = s.len() - (1 << 19);
                        s.drain(..cut);
                    }
                }
            }
        }
        s
    });
    let mut last_pos: Option<u64> = None;
    let mut last_change = Instant::now();
    let mut hung = false;
    let status = loop {
        match child.try_wait() {
            Ok(Some(st)) => break Some(st),
            Ok(None) => {}
            Err(_) => break None,
        }
        let pos = read_progress(progress);
        if pos != last_pos {
            last_pos = pos;
            last_change = Instant::now();
        } else if last_change.elapsed() > Duration::from_secs(horizon) && pos.is_some() {
            hung = true;
            let _ = child.kill();
            let _ = child.wait();
            break None;
        }
        std::thread::sleep(Duration::from_millis(50));
    };
    let out = t_out.join().unwrap_or_default();
    let err = t_err.join().unwrap_or_default();
    let out_s = String::from_utf8_lossy(&out);
    if !hung {
        if let Some(st) = status {
            if st.success() {
                for line in out_s.lines() {
                    if let Some(rest) = line.find("@@MC-SUMMARY@@").map(|p| &line[p + 14..]) {
                        if let Ok(v) = serde_json::from_str::<Value>(rest) {
                            if let Some(s) = v.get("summary").and_then(Summary::from_json) {
                                return (Some(s), None, None);
                            }
                        }
                    }
                }
                return (None, None, Some("worker exited 0 without a summary".into()));
            }
        }
    }
    let pos = read_progress(progress);
    match pos {
        Some(p) if p != u64::MAX => {
            let how = if hung {
                format!("fails to terminate within the {} s horizon", horizon)
            } else {
                let tail: String = String::from_utf8_lossy(&err).chars().rev().take(300).collect::<String>().chars().rev().collect();
                format!(
                    "worker process died ({}): {}",
                    status.map(|s| s.to_string()).unwrap_or_else(|| "unknown".into()),
                    tail.replace('\n', " | ")
                )
            };
            (None, Some((p, how)), None)
        }
        _ => (
            None,
            None,
            Some(format!(
                "worker failed before the first case: {} {}",
                status.map(|s| s.to_string()).unwrap_or_default(),
                String::from_utf8_lossy(&err).chars().take(400).collect::<String>()
            )),
        ),
    }
}

fn run_shard(exe: &Path, p_id: &str, tier: Tier, shard: u64, of: u64, total: u64, horizon: u64) -> ShardResult {
    let mut res = ShardResult { sum: Summary::default(), stopped_early: None, crashes: vec![], machinery_errors: vec![], slow_confirmed: 0 };
    let npos = if total > shard { (total - shard + of - 1) / of } else { 0 };
    let progress = cache_dir().join(format!("progress-{}-{}-{}-{}", p_id, tier.name(), std::process::id(), shard));
    let mut from = 0u64;
    let mut crashes_here = 0;
    while from < npos {
        let (sum, crash, merr) = run_child(exe, p_id, tier, shard, of, from, npos, &progress, horizon);
        if let Some(s) = sum {
            res.sum.merge(&s);
            break;
        }
        if let Some(e) = merr {
            res.machinery_errors.push(e);
            break;
        }
        if let Some((pos, how)) = crash {
            // deterministic re-execution of the completed prefix to recover its summary
            if pos > from {
                let (sum2, crash2, merr2) = run_child(exe, p_id, tier, shard, of, from, pos, &progress, horizon);
                if let Some(s) = sum2 {
                    res.sum.merge(&s);
                } else {
                    res.machinery_errors.push(format!(
                        "non-deterministic worker: prefix [{}..{}) of shard {} did not complete on re-execution ({:?} {:?})",
                        from, pos, shard, crash2, merr2
                    ));
                    break;
                }
            }
            // a case that overran the horizon is re-run alone with a much longer one before it is
            // called non-terminating: a stalled machine must not become a verdict
            if how.starts_with("fails to terminate") {
                let long = std::cmp::max(30, horizon * 4);
                let (sum3, _, _) = run_child(exe, p_id, tier, shard, of, pos, pos + 1, &progress, long);
                if let Some(s) = sum3 {
                    res.sum.merge(&s);
                    res.slow_confirmed += 1;
                    from = pos + 1;
                    continue;
                }
            }
            res.crashes.push((shard + of * pos, how));
            from = pos + 1;
            crashes_here += 1;
            if crashes_here >= MAX_DEATHS_PER_SHARD {
                // every further dying case costs a process restart (or a full horizon); the violations
                // already recorded decide the verdict, the rest of the shard is reported as unexplored
                res.stopped_early = Some(npos.saturating_sub(from));
                break;
            }
        }
    }
    let _ = std::fs::remove_file(&progress);
    res
}

pub struct RunResult {
    pub exit_code: i32,
}

pub fn parent_main(p: &dyn Property, tier: Tier) -> RunResult {
    let t0 = Instant::now();
    let id = p.id();
    let total = p.len();
    let exe = std::env::current_exe().expect("current_exe");
    let nworkers = (p.workers() as u64).min(total.max(1)).max(1);
    let horizon = p.horizon_secs();
    let results: Vec<ShardResult> = std::thread::scope(|s| {
        let hs: Vec<_> = (0..nworkers)
            .map(|sh| {
                let exe = exe.clone();
                s.spawn(move || run_shard(&exe, id, tier, sh, nworkers, total, horizon))
            })
            .collect();
        hs.into_iter().map(|h| h.join().expect("shard thread")).collect()
    });
    let mut sum = Summary::default();
    let mut machinery: Vec<String> = vec![];
    let mut unexplored = 0u64;
    for r in &results {
        if let Some(n) = r.stopped_early {
            unexplored += n;
        }
        sum.merge(&r.sum);
        machinery.extend(r.machinery_errors.iter().cloned());
        for (idx, how) in &r.crashes {
            let out = CaseOut {
                class: "process-died-or-hung".into(),
                verdict: p.crash_verdict(*idx, how),
                states: 1,
                transitions: 1,
                traces: 1,
            };
            sum.add(*idx, &out);
        }
    }
    sum.violations.sort();
    // worker-level failures (a worker that is not deterministic, or that could not be restarted) put every verdict of the
    // run in doubt; a case the machinery could not judge ("case #n: MACHINERY ...") leaves the verdicts of the other cases intact
    let worker_level_failure = !machinery.is_empty();
    machinery.extend(sum.machinery.iter().cloned());
    let known = KnownFindings::load();
    let replay_dir = verif_dir().join("replays").join(id);
    let _ = std::fs::create_dir_all(&replay_dir);
    // clear old replay files of this tier
    if let Ok(rd) = std::fs::read_dir(&replay_dir) {
        for e in rd.flatten() {
            let n = e.file_name().to_string_lossy().to_string();
            if n.starts_with(&format!("{}-", tier.name())) {
                let _ = std::fs::remove_file(e.path());
            }
        }
    }
    let write_replay = |name: &str, idx: u64, what: &str| -> PathBuf {
        let path = replay_dir.join(format!("{}-{}.json", tier.name(), name));
        let v = json!({"property": id, "tier": tier.name(), "idx": idx, "what": what, "case": p.describe(idx)});
        let _ = std::fs::write(&path, serde_json::to_string_pretty(&v).unwrap());
        path
    };
    let mut known_seen = vec![];
    for (fid, (n, ex)) in &sum.known {
        let what = known.known.get(fid).map(|x| x.1.clone()).unwrap_or_default();
        let path = write_replay(&format!("known-{}", fid), *ex, &what);
        println!("KNOWN-FINDING: property={} {}: {} ({} cases, e.g. {})", id, fid, what, n, path.display());
        known_seen.push(json!({"id": fid, "cases": n, "example": path.display().to_string()}));
    }
    // one replay file and one VIOLATION line per violation class (smallest failing case of the class)
    for (k, (class, (n, idx, msg))) in sum.viol_kinds.iter().enumerate() {
        let path = write_replay(&format!("violation-{:03}", k), *idx, msg);
        if k < 40 {
            println!("VIOLATION property={} replay={}", id, path.display());
            println!("  -> [{} x {}] {}", n, one_line(class, 80), one_line(msg, 400));
        }
    }
    if sum.violations_total as usize > 25 {
        println!("  ({} violations in total in {} classes; one replay per class in {})", sum.violations_total, sum.viol_kinds.len(), replay_dir.display());
    }
    for m in &machinery {
        println!("MACHINERY-ERROR: {}", m);
    }
    if unexplored > 0 {
        println!(
            "NOTE: {} cases were not executed: shards were abandoned after {} dying/hanging cases each (verdict rests on the violations above)",
            unexplored, MAX_DEATHS_PER_SHARD
        );
    }
    let exhaustive = machinery.is_empty() && sum.evaluations == total;
    let nontrivial = sum.classes.keys().filter(|k| !k.starts_with("trivial")).count() as u64;
    let mut samples: Vec<Value> = vec![];
    if total > 0 {
        for i in [0u64, total / 2, total - 1] {
            samples.push(p.describe(i));
        }
    }
    let wall = t0.elapsed().as_secs_f64();
    let top_classes: BTreeMap<String, u64> = sum.classes.iter().take(400).map(|(k, v)| (k.clone(), *v)).collect();
    let evidence = json!({
        "property_id": id,
        "tier": tier.name(),
        "seed": std::env::var("VERIF_SEED").ok().and_then(|s| s.parse::<i64>().ok()).unwrap_or(0),
        "level": p.level(),
        "coverage": {
            "evaluations": sum.evaluations,
            "distinct_nontrivial": nontrivial,
            "rule": p.rule(),
            "samples": samples,
            "states": sum.states,
            "transitions": sum.transitions,
            "traces_validated_against_impl": sum.traces,
            "exhaustive": exhaustive,
            "space_size": total,
            "not_executed_after_repeated_process_deaths": unexplored,
            "bounds": p.bounds(),
            "outcome_classes": top_classes,
            "skipped_unspecified": sum.skipped,
            "known_findings_seen": known_seen,
            "cases_over_horizon_that_completed_when_rerun_alone": results.iter().map(|r| r.slow_confirmed).sum::<u64>(),
            "workers": nworkers,
            "explanation": "every index of the bounded space was executed on the real implementation (see rule/bounds); seed is unused: nothing is random",
        },
        "assumptions": p.assumptions(),
        "wall_s": wall,
        "violations": sum.violations_total,
    });
    let ev_dir = verif_dir().join("evidence");
    let _ = std::fs::create_dir_all(&ev_dir);
    let _ = std::fs::write(ev_dir.join(format!("{}.json", id)), serde_json::to_string_pretty(&evidence).unwrap());
    println!(
        "{} {}: cases={} of {} states={} transitions={} impl-runs={} classes={} known={} violations={} wall={:.1}s exhaustive={}",
        id,
        tier.name(),
        sum.evaluations,
        total,
        sum.states,
        sum.transitions,
        sum.traces,
        nontrivial,
        sum.known.values().map(|v| v.0).sum::<u64>(),
        sum.violations_total,
        wall,
        exhaustive
    );
    let exit_code = if worker_level_failure {
        2
    } else if sum.violations_total > 0 {
        // demonstrated on completed, replayable cases; cases the machinery could not judge are listed above and keep exhaustive=false
        1
    } else if !machinery.is_empty() {
        2
    } else {
        0
    };
    RunResult { exit_code }
}

pub fn one_line(s: &str, max: usize) -> String {
    let t: String = s.chars().map(|c| if c == '\n' { '⏎' } else { c }).collect();
    if t.chars().count() > max {
        let mut r: String = t.chars().take(max).collect();
        r.push('…');
        r
    } else {
        t
    }
}

/// `mc replay <file>`: re-executes one recorded case twice in worker subprocesses and compares.
pub fn replay_main(p: &dyn Property, idx: u64) -> i32 {
    silence_panics();
    println!("replaying {} case #{}: {}", p.id(), idx, one_line(&p.describe(idx).to_string(), 600));
    let a = guarded(|| p.run(idx));
    let b = guarded(|| p.run(idx));
    let fmt = |r: &Result<CaseOut, String>| match r {
        Ok(o) => format!("{} / {:?}", o.class, o.verdict),
        Err(m) => format!("panic: {}", m),
    };
    let (fa, fb) = (fmt(&a), fmt(&b));
    if fa != fb {
        println!("MACHINERY-ERROR: replay is not deterministic:\n  1: {}\n  2: {}", fa, fb);
        return 2;
    }
    println!("observation (identical on two executions): {}", fa);
    match a {
        Ok(CaseOut { verdict: Verdict::Violation(_), .. }) | Err(_) => 1,
        _ => 0,
    }
}

// ---------------------------------------------------------------------------------------------
// small enumeration helpers

/// Decode `idx` in mixed radix (least significant digit first).
pub fn unrank(mut idx: u64, radices: &[u64]) -> Vec<u64> {
    let mut v = Vec::with_capacity(radices.len());
    for &r in radices {
        v.push(idx % r);
        idx /= r;
    }
    v
}
pub fn product(radices: &[u64]) -> u64 {
    radices.iter().product()
}
/// number of strings of length 0..=n over an alphabet of size k
pub fn strings_upto(k: u64, n: u32) -> u64 {
    (0..=n).map(|l| k.pow(l)).sum()
}
/// decode idx into a string (as symbol indices) of length 0..=n, shortest first
pub fn unrank_string(mut idx: u64, k: u64, n: u32) -> Vec<u64> {
    for l in 0..=n {
        let c = k.pow(l);
        if idx < c {
            let mut v = Vec::with_capacity(l as usize);
            for _ in 0..l {
                v.push(idx % k);
                idx /= k;
            }
            v.reverse();
            return v;
        }
        idx -= c;
    }
    panic!("unrank_string: index out of range");
}
