//! C02 — compiled programs behave as the reference semantics prescribe.
//! E1: all operator trees up to depth 2 over probe-call leaves (value and evaluation order);
//! E2: all sequences of up to 3 (thorough 4) statements from a pool of concrete statements that
//!     places names, jumps and returns both validly and invalidly;
//! F:  `return` inside filter actions must be rejected by the compiler.

use crate::ast::*;
use crate::fw::*;
use crate::progcmp::*;
use crate::refval::*;
use crate::subject::*;
use serde_json::{json, Value};
use std::rc::Rc;

/// operators / constructs combined in E1 (arity 2 unless noted)
const E1_OPS: &[&str] = &[
    "+", "-", "*", "/", "%", "==", "!=", "<", ">", "<=", ">=", "&", "|", "^", "<<", ">>", "&&", "||", "index", "call2",
    "array", "map", "setindex", "assign", "neg", "not", "if",
];

fn probe_prelude() -> Vec<S> {
    // let v = [0, 1, -1, 2.5, "a", [7], 3]; fn t(i) { push(obs, i); v[i] }   let x = 0; let g = fn(a, b) {...}
    vec![
        S::Let(
            "v".into(),
            E::Arr(vec![
                lit_i(0),
                lit_i(1),
                lit_i(-1),
                E::Lit(V::Float(2.5)),
                E::Lit(V::Str("a".into())),
                E::Arr(vec![lit_i(7), lit_i(8)]),
                lit_i(3),
            ]),
        ),
        S::FnStmt(
            "t".into(),
            vec!["i".into()],
            Rc::new(vec![push_obs(var("i")), S::Expr(E::Index(Box::new(var("v")), Box::new(var("i"))))]),
        ),
        S::Let("x".into(), lit_i(0)),
        S::Let(
            "g".into(),
            E::Fn(vec!["a".into(), "b".into()], Rc::new(vec![S::Expr(E::Arr(vec![var("a"), var("b")]))])),
        ),
        S::Let("w".into(), E::Arr(vec![lit_i(10), lit_i(20), lit_i(30)])),
    ]
}
const NLEAF: u64 = 7;

fn leaf(i: u64) -> E {
    call("t", vec![lit_i(i as i64)])
}

fn apply(op: &'static str, a: E, b: E) -> E {
    match op {
        "index" => E::Index(Box::new(E::Arr(vec![a.clone(), lit_i(5), lit_i(6)])), Box::new(b)),
        "call2" => E::Call(Box::new(var("g")), vec![a, b]),
        "array" => E::Arr(vec![a, b]),
        "map" => E::Index(Box::new(E::MapLit(vec![(a, b)])), Box::new(lit_i(1))),
        "setindex" => assign(E::Index(Box::new(var("w")), Box::new(a)), b),
        "assign" => bin("+", assign(var("x"), a), b),
        "neg" => bin("+", E::Un("-", Box::new(a)), E::Un("-", Box::new(b))),
        "not" => E::Arr(vec![E::Un("!", Box::new(a)), E::Un("~", Box::new(b))]),
        "if" => E::If(Box::new(a), vec![S::Expr(b.clone())], Some(Box::new(Else::Block(vec![S::Expr(E::Un("-", Box::new(b)))])))),
        _ => bin(op, a, b),
    }
}

// ---------------------------------------------------------------------------------------------
// E2 statement pool (source text parsed by the harness's own mini-builder below)

fn b(v: Vec<S>) -> Rc<Vec<S>> {
    Rc::new(v)
}
fn x() -> E {
    var("x")
}
fn y() -> E {
    var("y")
}
fn some(l: &str) -> Option<String> {
    Some(l.to_string())
}

pub fn pool() -> Vec<S> {
    let inc_x = S::Expr(assign(x(), bin("+", x(), lit_i(1))));
    vec![
        // bindings and assignments
        S::Let("x".into(), lit_i(1)),
        S::Let("x".into(), lit_i(2)),
        S::Let("y".into(), x()),
        S::Let("y".into(), E::Arr(vec![x(), lit_i(1)])),
        inc_x.clone(),
        S::Expr(assign(y(), x())),
        S::Expr(assign(x(), bin("*", y(), lit_i(2)))),
        push_obs(x()),
        push_obs(y()),
        // blocks and shadowing
        S::Block(vec![S::Let("x".into(), lit_i(5)), push_obs(x())]),
        S::Block(vec![S::Expr(assign(x(), lit_i(7)))]),
        // conditionals
        S::Expr(E::If(
            Box::new(bin(">", x(), lit_i(1))),
            vec![push_obs(lit_i(10)), S::Expr(assign(x(), lit_i(0)))],
            Some(Box::new(Else::Block(vec![push_obs(lit_i(20))]))),
        )),
        S::Let("y".into(), E::If(Box::new(bin("==", x(), lit_i(1))), vec![S::Expr(lit_i(100))], None)),
        // loops
        S::While(None, bin("<", x(), lit_i(3)), vec![inc_x.clone(), push_obs(x())]),
        S::Loop(None, vec![inc_x.clone(), S::Expr(E::If(Box::new(bin(">", x(), lit_i(2))), vec![S::Break(None)], None))]),
        S::While(some("lbl"), bin("<", x(), lit_i(4)), vec![inc_x.clone(), S::Expr(E::If(Box::new(bin("==", x(), lit_i(2))), vec![S::Continue(some("lbl"))], None)), push_obs(x())]),
        S::Loop(some("lbl"), vec![S::Loop(None, vec![S::Break(some("lbl"))])]),
        // functions, closures, recursion
        S::FnStmt("f".into(), vec![], b(vec![S::Expr(x())])),
        S::FnStmt("f".into(), vec!["a".into()], b(vec![S::Expr(bin("+", var("a"), x()))])),
        S::FnStmt("f".into(), vec![], b(vec![inc_x.clone()])),
        S::FnStmt("f".into(), vec![], b(vec![S::Return(Some(x())), push_obs(lit_i(99))])),
        S::Let("g".into(), E::Fn(vec!["a".into()], b(vec![S::Expr(bin("*", var("a"), lit_i(2)))]))),
        // function bodies that do not end in an expression statement: an empty block, a loop, a let, a nested
        // block with a value, after an earlier expression statement whose value must not leak out
        S::Let("g".into(), E::Fn(vec!["a".into()], b(vec![S::Expr(bin("*", var("a"), lit_i(2))), S::Block(vec![])]))),
        S::Let("g".into(), E::Fn(vec!["a".into()], b(vec![S::Expr(bin("*", var("a"), lit_i(3))), S::While(None, E::Lit(crate::refval::V::Bool(false)), vec![])]))),
        S::Let("g".into(), E::Fn(vec!["a".into()], b(vec![S::Expr(var("a")), S::Let("q".into(), lit_i(4))]))),
        S::Let("g".into(), E::Fn(vec!["a".into()], b(vec![S::Expr(lit_i(1)), S::Block(vec![S::Let("q".into(), var("a")), S::Expr(bin("+", var("q"), lit_i(10)))])]))),
        push_obs(call("f", vec![])),
        push_obs(call("f", vec![lit_i(1)])),
        push_obs(call("g", vec![lit_i(3)])),
        S::Let("mk".into(), E::Fn(vec!["a".into()], b(vec![S::Expr(E::Fn(vec!["c".into()], b(vec![S::Expr(bin("+", var("a"), var("c")))])))]))),
        push_obs(E::Call(Box::new(call("mk", vec![x()])), vec![lit_i(1)])),
        S::FnStmt(
            "fact".into(),
            vec!["n".into()],
            b(vec![S::Expr(E::If(
                Box::new(bin("<", var("n"), lit_i(2))),
                vec![S::Expr(lit_i(1))],
                Some(Box::new(Else::Block(vec![S::Expr(bin("*", var("n"), call("fact", vec![bin("-", var("n"), lit_i(1))])))]))),
            ))]),
        ),
        push_obs(call("fact", vec![lit_i(4)])),
        // counter closure: writes to a captured variable persist in the closure
        S::Let(
            "k".into(),
            E::Call(
                Box::new(E::Fn(
                    vec![],
                    b(vec![
                        S::Let("n".into(), lit_i(0)),
                        S::Expr(E::Fn(vec![], b(vec![S::Expr(assign(var("n"), bin("+", var("n"), lit_i(1)))), S::Expr(var("n"))]))),
                    ]),
                )),
                vec![],
            ),
        ),
        push_obs(call("k", vec![])),
        // the same counter where the captured local lives in a nested block of the enclosing function and the closure
        // writes it inside a nested block of its own, then reads it after that block (one capture slot, not two)
        S::Let(
            "kb".into(),
            E::Call(
                Box::new(E::Fn(
                    vec![],
                    b(vec![
                        S::Let("r".into(), E::Lit(V::Null)),
                        S::Block(vec![
                            S::Let("n".into(), lit_i(0)),
                            S::Expr(assign(
                                var("r"),
                                E::Fn(
                                    vec![],
                                    b(vec![
                                        S::Expr(E::If(Box::new(E::Lit(V::Bool(true))), vec![S::Expr(assign(var("n"), bin("+", var("n"), lit_i(1))))], None)),
                                        S::Expr(var("n")),
                                    ]),
                                ),
                            )),
                        ]),
                        S::Expr(var("r")),
                    ]),
                )),
                vec![],
            ),
        ),
        push_obs(call("kb", vec![])),
        // containers
        S::Expr(assign(E::Index(Box::new(y()), Box::new(lit_i(0))), lit_i(3))),
        S::Let("m".into(), E::MapLit(vec![(lit_i(1), x()), (E::Lit(V::Str("a".into())), lit_i(2))])),
        push_obs(E::Index(Box::new(var("m")), Box::new(lit_i(1)))),
        S::Expr(assign(E::Index(Box::new(var("m")), Box::new(x())), lit_i(9))),
        push_obs(call("len", vec![var("m")])),
        // match
        push_obs(E::Match(
            Box::new(x()),
            vec![
                Arm { pats: vec![Pat::Lit(V::Int(1)), Pat::Lit(V::Int(2))], body: vec![S::Expr(lit_i(12))], bare: true },
                Arm { pats: vec![Pat::Range(V::Int(3), V::Int(6), false)], body: vec![S::Expr(lit_i(36))], bare: false },
                Arm { pats: vec![Pat::Default], body: vec![S::Expr(lit_i(0))], bare: true },
            ],
        )),
        // a nested function literal that refers to its *enclosing* function by name (recursion through a helper)
        S::FnStmt(
            "cnt".into(),
            vec!["n".into()],
            b(vec![
                S::Let(
                    "h".into(),
                    E::Fn(
                        vec!["m".into()],
                        b(vec![S::Expr(E::If(
                            Box::new(bin("<", var("m"), lit_i(1))),
                            vec![S::Expr(lit_i(0))],
                            Some(Box::new(Else::Block(vec![S::Expr(bin("+", lit_i(10), call("cnt", vec![bin("-", var("m"), lit_i(1))])))]))),
                        ))]),
                    ),
                ),
                // cnt(n) = 1 + h(n), h(m) = 10 + cnt(m - 1): calling h instead of cnt (or vice versa) changes the result
                S::Expr(bin("+", lit_i(1), call("h", vec![var("n")]))),
            ]),
        ),
        push_obs(call("cnt", vec![lit_i(3)])),
        // closure over two captured values combined non-commutatively, three levels deep
        S::Let(
            "mk3".into(),
            E::Fn(
                vec!["a".into(), "c".into()],
                b(vec![S::Expr(E::Fn(
                    vec!["d".into()],
                    b(vec![S::Expr(E::Fn(vec![], b(vec![S::Expr(bin("-", bin("*", var("a"), lit_i(100)), bin("-", bin("*", var("c"), lit_i(10)), var("d"))))])))]),
                ))]),
            ),
        ),
        push_obs(E::Call(Box::new(E::Call(Box::new(call("mk3", vec![x(), lit_i(5)])), vec![lit_i(7)])), vec![])),
        // a function with locals in nested blocks, a loop and an early return
        S::FnStmt(
            "fl".into(),
            vec!["n".into()],
            b(vec![
                S::Let("i".into(), lit_i(0)),
                S::While(
                    None,
                    E::Lit(V::Bool(true)),
                    vec![
                        S::Expr(assign(var("i"), bin("+", var("i"), lit_i(1)))),
                        S::Block(vec![S::Let("n".into(), bin("*", var("i"), lit_i(2))), S::Expr(E::If(Box::new(bin(">", var("n"), lit_i(4))), vec![S::Return(Some(bin("+", var("n"), var("i"))))], None))]),
                    ],
                ),
            ]),
        ),
        push_obs(call("fl", vec![x()])),
        // match arms with several alternatives where ranges are not the last alternative
        push_obs(E::Match(
            Box::new(x()),
            vec![
                Arm { pats: vec![Pat::Range(V::Int(10), V::Int(20), false), Pat::Range(V::Int(1), V::Int(2), false), Pat::Lit(V::Int(7))], body: vec![S::Expr(lit_i(1))], bare: true },
                Arm { pats: vec![Pat::Range(V::Int(30), V::Int(40), true), Pat::Lit(V::Int(2)), Pat::Range(V::Int(3), V::Int(5), true)], body: vec![S::Expr(lit_i(2))], bare: false },
            ],
        )),
        push_obs(E::Match(
            Box::new(call("str", vec![x()])),
            vec![
                Arm { pats: vec![Pat::Range(V::Str("5".into()), V::Str("9".into()), true), Pat::Lit(V::Str("1".into()))], body: vec![S::Expr(lit_i(1))], bare: true },
                Arm { pats: vec![Pat::Lit(V::Str("2".into())), Pat::Range(V::Str("a".into()), V::Str("z".into()), false)], body: vec![S::Let("q".into(), lit_i(1))], bare: false },
                Arm { pats: vec![Pat::Default], body: vec![S::Expr(lit_i(3))], bare: true },
            ],
        )),
        // ----- deliberately ill-formed or failing statements -----
        push_obs(var("zz")),
        S::Expr(assign(var("zz"), lit_i(1))),
        S::Break(None),
        S::Continue(None),
        S::Return(Some(lit_i(1))),
        S::Expr(E::If(Box::new(bin(">", x(), lit_i(0))), vec![S::Break(None)], None)),
        S::FnStmt("h".into(), vec![], b(vec![S::Break(None)])),
        S::Loop(None, vec![S::FnStmt("h".into(), vec![], b(vec![S::Continue(None)])), S::Break(None)]),
        S::Loop(None, vec![S::Break(some("lbl"))]),
        S::While(some("lbl"), bin("<", x(), lit_i(2)), vec![inc_x.clone(), S::Continue(some("nolbl"))]),
        S::Expr(E::Match(
            Box::new(x()),
            vec![
                Arm { pats: vec![Pat::Lit(V::Int(1))], body: vec![S::Expr(lit_i(1))], bare: true },
                Arm { pats: vec![Pat::Lit(V::Str("a".into()))], body: vec![S::Expr(lit_i(2))], bare: true },
            ],
        )),
        push_obs(bin("/", lit_i(1), bin("-", x(), x()))),
        push_obs(E::Index(Box::new(E::Arr(vec![lit_i(1)])), Box::new(x()))),
        push_obs(call("x", vec![])),
    ]
}

const FILTER_RETURN: &[&str] = &[
    "@ true { return; }",
    "@ true { return 1; }",
    "@ { return 2; }",
    "@ end { return; }",
    "@ true { if true { return 3; } }",
    "let q = 1; @ q == 1 { loop { return; } }",
    "@ true { let f = fn() { return 4; }; f(); }",
    "fn f() { return 1; } @ true { f(); }",
    // the filter itself nested in a function body, a function literal, a block, an if branch, a loop
    "fn w() { @ true { return; } } w();",
    "fn w() { @ true { return 1; } }",
    "fn w() { @ true { if true { return 5; } } } w();",
    "let w = fn() { @ true { return 6; } }; w();",
    "fn w() { fn v() { @ end { return; } } v(); } w();",
    "{ @ true { return 7; } }",
    "if true { @ true { return; } }",
    "let i = 0; while i < 1 { i = i + 1; @ true { return 8; } }",
    "fn w() { @ true { let f = fn() { return 9; }; f(); } } w();",
];

pub struct P02 {
    tier: Tier,
    pool: Vec<S>,
    n_e1_d1: u64,
    n_e1_d2: u64,
    n_e2: u64,
    e2_len: u32,
}
impl P02 {
    pub fn new(tier: Tier) -> P02 {
        let pool = pool();
        let k = E1_OPS.len() as u64;
        let e2_len = tier.pick(3, 4);
        let n_e2 = strings_upto(pool.len() as u64, e2_len);
        P02 { tier, n_e1_d1: k * NLEAF * NLEAF, n_e1_d2: 2 * k * k * NLEAF * NLEAF * NLEAF, n_e2, e2_len, pool }
    }
    fn program(&self, idx: u64) -> (String, Vec<S>) {
        let k = E1_OPS.len() as u64;
        if idx < self.n_e1_d1 {
            let v = unrank(idx, &[NLEAF, NLEAF, k]);
            let e = apply(E1_OPS[v[2] as usize], leaf(v[1]), leaf(v[0]));
            let mut p = probe_prelude();
            p.push(S::Expr(e));
            return (format!("E1 {}", E1_OPS[v[2] as usize]), with_obs(p));
        }
        let idx = idx - self.n_e1_d1;
        if idx < self.n_e1_d2 {
            let v = unrank(idx, &[NLEAF, NLEAF, NLEAF, k, k, 2]);
            let (o1, o2) = (E1_OPS[v[4] as usize], E1_OPS[v[3] as usize]);
            let e = if v[5] == 0 {
                apply(o1, apply(o2, leaf(v[2]), leaf(v[1])), leaf(v[0]))
            } else {
                apply(o1, leaf(v[2]), apply(o2, leaf(v[1]), leaf(v[0])))
            };
            let mut p = probe_prelude();
            p.push(S::Expr(e));
            return (format!("E1 {}({})", o1, o2), with_obs(p));
        }
        let idx = idx - self.n_e1_d2;
        let seq = unrank_string(idx, self.pool.len() as u64, self.e2_len);
        let mut body: Vec<S> = seq.iter().map(|&i| self.pool[i as usize].clone()).collect();
        body.push(S::Expr(call("len", vec![var("obs")])));
        ("E2".to_string(), with_obs(body))
    }
    fn n_prog(&self) -> u64 {
        self.n_e1_d1 + self.n_e1_d2 + self.n_e2
    }
}

impl Property for P02 {
    fn id(&self) -> &'static str {
        "C02"
    }
    fn len(&self) -> u64 {
        self.n_prog() + FILTER_RETURN.len() as u64
    }
    fn describe(&self, idx: u64) -> Value {
        if idx >= self.n_prog() {
            return json!({"space": "F", "source": FILTER_RETURN[(idx - self.n_prog()) as usize]});
        }
        let (tag, p) = self.program(idx);
        json!({"space": tag, "source": program_src(&p)})
    }
    fn run(&self, idx: u64) -> CaseOut {
        if idx >= self.n_prog() {
            let src = FILTER_RETURN[(idx - self.n_prog()) as usize];
            // legal: the return sits in a function of its own (inside the action, or called from it)
            let must_reject = !["@ true { let f = fn() { return 4; }; f(); }", "fn f() { return 1; } @ true { f(); }", "fn w() { @ true { let f = fn() { return 9; }; f(); } } w();"].contains(&src);
            return match guarded(|| front(src)) {
                Err(m) => CaseOut::viol("F panic", format!("front end panicked on {}: {}", src, m)),
                Ok(Front::CompileError(..)) if must_reject => CaseOut::pass("F return-in-filter-action rejected"),
                Ok(Front::Compiled(_)) if !must_reject => CaseOut::pass("F return-in-function-inside-action accepted"),
                Ok(Front::Compiled(_)) => known_return_in_filter(src),
                Ok(Front::CompileError(m, _)) => CaseOut::viol("F spurious-reject", format!("{} was rejected: {}", src, m)),
                Ok(Front::ParseErrors(e)) => CaseOut::viol("F parse", format!("{} does not parse: {:?}", src, e)),
            };
        }
        let (tag, p) = self.program(idx);
        compare_program(&tag, &p)
    }
    fn rule(&self) -> String {
        format!("E1: for each of {} operators/constructs {:?}, all applications to two probe-call leaves t(i) (i over a 7-value domain: 0, 1, -1, 2.5, \"a\", [7,8], 3) and all depth-2 nestings in both operand positions, so that both the value and the evaluation order of every operand position are observed; E2: all sequences of <= {} statements from a pool of {} concrete statements (bindings, shadowing blocks, if/while/loop with labels, functions, closures, recursion, a counter closure, containers, match, plus undefined names, misplaced break/continue/return, unknown labels, mixed match arms, failing operations), closed by an observing expression; F: {} filter programs with return inside an action. Oracle: RefEval (mc/src/refeval.rs): same observation sequence, same final value, runtime error exactly when the reference fails, compile error exactly when the static rules reject; class = (space, reference outcome, deviation)", E1_OPS.len(), E1_OPS, self.e2_len, self.pool.len(), FILTER_RETURN.len())
    }
    fn bounds(&self) -> Value {
        json!({"E1_depth1": self.n_e1_d1, "E1_depth2": self.n_e1_d2, "E2_sequences": self.n_e2, "E2_max_statements": self.e2_len, "pool": self.pool.len(), "fuel": FUEL})
    }
    fn assumptions(&self) -> Vec<String> {
        vec![
            "RefEval is the trusted reference (derived from the property statements and docs, Appendix A of DESIGN.md)".into(),
            "programs whose behaviour the statements leave open (null map values, byte/int equality, initializer mentioning its own name, possible non-termination within 20000 reference steps) are counted as skipped_unspecified".into(),
            "programs larger than the bounds are not covered".into(),
        ]
    }
}

fn known_return_in_filter(src: &str) -> CaseOut {
    CaseOut {
        class: "F return-in-filter-action accepted".into(),
        verdict: known_or_violation("C02", "return-in-filter-action", format!("`{}` compiles although return outside a function body must be rejected (filter actions included)", src)),
        states: 1,
        transitions: 1,
        traces: 1,
    }
}
