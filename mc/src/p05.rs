//! C05 — conditionals, match and loops follow their documented control flow.
//! Three exhaustive tables against RefEval: match (scrutinee x arm patterns), if chains
//! (conditions x branch shapes), loop nests (kinds x labels x one guarded jump at every position).

use crate::ast::*;
use crate::fw::*;
use crate::progcmp::*;
use crate::refval::*;
use serde_json::{json, Value};
use std::rc::Rc;

// ---------------------------------------------------------------------------------------------
// match

fn domain(kind: usize) -> (Vec<V>, Vec<V>) {
    // (scrutinee values, pattern literal values)
    match kind {
        0 => ((-1..=6).map(V::Int).collect(), vec![V::Int(0), V::Int(2), V::Int(3), V::Int(5)]),
        1 => ("abcde".chars().map(V::Char).collect(), vec![V::Char('a'), V::Char('c'), V::Char('d')]),
        2 => ((b'a'..=b'e').map(V::Byte).collect(), vec![V::Byte(b'a'), V::Byte(b'c'), V::Byte(b'd')]),
        3 => (
            ["", "a", "b", "c", "bb", "d"].iter().map(|s| V::Str(s.to_string())).collect(),
            vec![V::Str("a".into()), V::Str("b".into()), V::Str("c".into())],
        ),
        _ => (vec![V::Bool(true), V::Bool(false), V::Int(1), V::Null, V::Float(2.0)], vec![V::Bool(true), V::Bool(false)]),
    }
}

/// pattern alternatives for a kind: literals, all ranges over the literal values (incl. empty and
/// reversed), and — in `full` mode — every 2- and selected 3-alternative combination
fn patterns(kind: usize, full: bool) -> Vec<Vec<Pat>> {
    let (_, lits) = domain(kind);
    let mut single: Vec<Pat> = lits.iter().map(|v| Pat::Lit(v.clone())).collect();
    if kind != 4 {
        for lo in &lits {
            for hi in &lits {
                for inc in [false, true] {
                    single.push(Pat::Range(lo.clone(), hi.clone(), inc));
                }
            }
        }
    }
    let mut out: Vec<Vec<Pat>> = single.iter().map(|p| vec![p.clone()]).collect();
    out.push(vec![Pat::Default]);
    let red: Vec<Pat> = if full { single.clone() } else { single.iter().step_by(3).cloned().collect() };
    for p in &red {
        for q in &red {
            out.push(vec![p.clone(), q.clone()]);
        }
    }
    // three alternatives with the range in every position
    let r3: Vec<Pat> = single.iter().step_by(if full { 4 } else { 7 }).cloned().collect();
    for p in &r3 {
        for q in &r3 {
            for r in &r3 {
                out.push(vec![p.clone(), q.clone(), r.clone()]);
            }
        }
    }
    out
}

const BODY_KINDS: usize = 3;
fn arm_body(kind: usize, marker: i64) -> (Vec<S>, bool) {
    match kind {
        0 => (vec![S::Expr(lit_i(marker))], true),                                         // bare expression
        1 => (vec![push_obs(lit_i(marker)), S::Expr(lit_i(marker + 1))], false),          // block ending in a value
        _ => (vec![push_obs(lit_i(marker)), S::Let("q".into(), lit_i(marker))], false),   // block without a value
    }
}

fn match_program(kind: usize, scrut: usize, arms: Vec<Arm>) -> Vec<S> {
    let (vals, _) = domain(kind);
    let mut p = vec![
        S::Let("v".into(), E::Arr(vals.iter().map(|v| E::Lit(v.clone())).collect())),
        S::FnStmt("t".into(), vec!["i".into()], Rc::new(vec![push_obs(var("i")), S::Expr(E::Index(Box::new(var("v")), Box::new(var("i"))))])),
    ];
    p.push(push_obs(E::Match(Box::new(call("t", vec![lit_i(scrut as i64)])), arms)));
    p.push(S::Expr(call("len", vec![var("obs")])));
    with_obs(p)
}

// ---------------------------------------------------------------------------------------------
// if chains

fn cond_values() -> Vec<V> {
    vec![V::Bool(false), V::Bool(true), V::Int(0), V::Int(1), V::Str("".into()), V::Str("a".into()), arr(vec![]), V::Null]
}
const BRANCH_KINDS: usize = 5;
fn branch(kind: usize, marker: i64) -> Vec<S> {
    match kind {
        0 => vec![],
        1 => vec![push_obs(lit_i(marker)), S::Expr(lit_i(marker + 1))],
        2 => vec![push_obs(lit_i(marker)), S::Let("q".into(), lit_i(marker))],
        3 => vec![S::Expr(lit_i(marker + 2)), S::Let("q".into(), lit_i(marker))],
        _ => vec![S::Let("q".into(), lit_i(marker)), S::Expr(bin("+", var("q"), lit_i(3)))],
    }
}
fn if_chain(conds: &[V], branches: &[usize], has_else: bool) -> E {
    // builds if c0 {b0} else if c1 {b1} ... [else {bn}]
    fn rec(conds: &[V], branches: &[usize], has_else: bool, k: usize) -> E {
        let then = branch(branches[k], 10 * (k as i64 + 1));
        let el = if k + 1 < conds.len() {
            Some(Box::new(Else::ElseIf(rec(conds, branches, has_else, k + 1))))
        } else if has_else {
            Some(Box::new(Else::Block(branch(branches[k + 1], 10 * (k as i64 + 2)))))
        } else {
            None
        };
        E::If(Box::new(E::Lit(conds[k].clone())), then, el)
    }
    rec(conds, branches, has_else, 0)
}

// ---------------------------------------------------------------------------------------------
// loops

#[derive(Clone, Debug)]
struct LoopCase {
    depth: usize,
    kinds: Vec<bool>,  // true = while, false = loop
    labels: Vec<bool>, // level has a label
    jump_break: bool,
    /// 0 = plain, 1..=depth = label of that level, depth+1 = unknown label
    target: usize,
    /// level (1-based) in whose body the jump sits; 0 = before the inner loop, 1 = after it
    place: usize,
    after_inner: bool,
    guards: Vec<i64>,
}

fn loop_program(c: &LoopCase) -> Vec<S> {
    fn level(c: &LoopCase, k: usize) -> Vec<S> {
        // returns statements: let ik = 0; <loop k>
        let ik = format!("i{}", k);
        let label = if c.labels[k - 1] { Some(format!("l{}", k)) } else { None };
        let mut body: Vec<S> = vec![];
        if !c.kinds[k - 1] {
            body.push(S::Expr(E::If(Box::new(bin(">=", var(&ik), lit_i(3))), vec![S::Break(None)], None)));
        }
        body.push(S::Expr(assign(var(&ik), bin("+", var(&ik), lit_i(1)))));
        body.push(push_obs(bin("+", lit_i(100 * k as i64), var(&ik))));
        let jump = || -> S {
            let lbl = match c.target {
                0 => None,
                t if t <= c.depth => Some(format!("l{}", t)),
                _ => Some("nolabel".to_string()),
            };
            let j = if c.jump_break { S::Break(lbl) } else { S::Continue(lbl) };
            let mut cond = bin("==", var("i1"), lit_i(c.guards[0]));
            for g in 2..=c.place {
                cond = bin("&&", cond, bin("==", var(&format!("i{}", g)), lit_i(c.guards[g - 1])));
            }
            S::Expr(E::If(Box::new(cond), vec![push_obs(lit_i(999)), j], None))
        };
        if c.place == k && !c.after_inner {
            body.push(jump());
        }
        if k < c.depth {
            body.extend(level(c, k + 1));
        }
        if c.place == k && c.after_inner {
            body.push(jump());
        }
        body.push(push_obs(bin("+", lit_i(1000 * k as i64), var(&ik))));
        let lp = if c.kinds[k - 1] { S::While(label, bin("<", var(&ik), lit_i(3)), body) } else { S::Loop(label, body) };
        vec![S::Let(ik, lit_i(0)), lp]
    }
    let mut p = level(c, 1);
    p.push(S::Expr(call("len", vec![var("obs")])));
    with_obs(p)
}

fn loop_cases(tier: Tier) -> Vec<LoopCase> {
    let mut out = vec![];
    let maxd = 3;
    for depth in 1..=maxd {
        for kinds in 0..(1u32 << depth) {
            for labels in 0..(1u32 << depth) {
                for jump_break in [true, false] {
                    for target in 0..=depth + 1 {
                        for place in 1..=depth {
                            for after_inner in [false, true] {
                                if place == depth && after_inner {
                                    continue; // no inner loop at the innermost level
                                }
                                let gvals: Vec<i64> = tier.pick(vec![1, 2, 3], vec![1, 2, 3]);
                                let ng = gvals.len().pow(place as u32);
                                for gi in 0..ng {
                                    let mut guards = vec![];
                                    let mut x = gi;
                                    for _ in 0..place {
                                        guards.push(gvals[x % gvals.len()]);
                                        x /= gvals.len();
                                    }
                                    out.push(LoopCase {
                                        depth,
                                        kinds: (0..depth).map(|b| kinds >> b & 1 == 1).collect(),
                                        labels: (0..depth).map(|b| labels >> b & 1 == 1).collect(),
                                        jump_break,
                                        target,
                                        place,
                                        after_inner,
                                        guards,
                                    });
                                }
                            }
                        }
                    }
                }
            }
        }
    }
    out
}

// ---------------------------------------------------------------------------------------------

pub struct P05 {
    tier: Tier,
    /// per kind: pattern alternatives
    pats: Vec<Vec<Vec<Pat>>>,
    /// per kind: reduced alternatives used for two-arm matches
    pats2: Vec<Vec<Vec<Pat>>>,
    n_m1: Vec<u64>,
    n_m2: Vec<u64>,
    n_mixed: u64,
    n_if: u64,
    loops: Vec<LoopCase>,
    if_cases: Vec<(Vec<V>, Vec<usize>, bool)>,
}
const KINDS: usize = 5;

impl P05 {
    pub fn new(tier: Tier) -> P05 {
        let full = tier == Tier::Thorough;
        let pats: Vec<Vec<Vec<Pat>>> = (0..KINDS).map(|k| patterns(k, full)).collect();
        // two-arm matches: reduced alternative set without the default pattern (a default arm is added by a flag)
        let pats2: Vec<Vec<Vec<Pat>>> = pats
            .iter()
            .map(|p| p.iter().filter(|a| !a.iter().any(|x| matches!(x, Pat::Default))).step_by(if full { 5 } else { 9 }).cloned().collect())
            .collect();
        let n_m1 = (0..KINDS).map(|k| (pats[k].len() * domain(k).0.len() * BODY_KINDS * 2) as u64).collect();
        let n_m2 = (0..KINDS).map(|k| (pats2[k].len() * pats2[k].len() * domain(k).0.len() * 2) as u64).collect();
        // if chains
        let cv = cond_values();
        let mut if_cases = vec![];
        for len in 1..=2usize {
            let nc = cv.len().pow(len as u32);
            for ci in 0..nc {
                let mut conds = vec![];
                let mut x = ci;
                for _ in 0..len {
                    conds.push(cv[x % cv.len()].clone());
                    x /= cv.len();
                }
                for has_else in [false, true] {
                    let nb = len + has_else as usize;
                    for bi in 0..BRANCH_KINDS.pow(nb as u32) {
                        let mut br = vec![];
                        let mut y = bi;
                        for _ in 0..nb {
                            br.push(y % BRANCH_KINDS);
                            y /= BRANCH_KINDS;
                        }
                        if_cases.push((conds.clone(), br, has_else));
                    }
                }
            }
        }
        // length 3 over {false, true, 0} with every branch shape
        let c3 = [V::Bool(false), V::Bool(true), V::Int(0)];
        for ci in 0..27 {
            let conds = vec![c3[ci % 3].clone(), c3[ci / 3 % 3].clone(), c3[ci / 9].clone()];
            for has_else in [false, true] {
                let nb = 3 + has_else as usize;
                for bi in 0..BRANCH_KINDS.pow(nb as u32) {
                    let mut br = vec![];
                    let mut y = bi;
                    for _ in 0..nb {
                        br.push(y % BRANCH_KINDS);
                        y /= BRANCH_KINDS;
                    }
                    if_cases.push((conds.clone(), br, has_else));
                }
            }
        }
        P05 { tier, n_if: if_cases.len() as u64, if_cases, pats, pats2, n_m1, n_m2, n_mixed: (KINDS * KINDS) as u64, loops: loop_cases(tier) }
    }

    fn prog(&self, mut idx: u64) -> (String, Vec<S>) {
        for k in 0..KINDS {
            if idx < self.n_m1[k] {
                let nd = domain(k).0.len() as u64;
                let v = unrank(idx, &[2, BODY_KINDS as u64, nd, self.pats[k].len() as u64]);
                let (body, bare) = arm_body(v[1] as usize, 50);
                let mut arms = vec![Arm { pats: self.pats[k][v[3] as usize].clone(), body, bare }];
                let is_default = arms[0].pats.iter().any(|p| matches!(p, Pat::Default));
                if v[0] == 1 && !is_default {
                    let (b2, bare2) = arm_body((v[1] as usize + 1) % BODY_KINDS, 70);
                    arms.push(Arm { pats: vec![Pat::Default], body: b2, bare: bare2 });
                }
                return (format!("match1 kind{}", k), match_program(k, v[2] as usize, arms));
            }
            idx -= self.n_m1[k];
        }
        for k in 0..KINDS {
            if idx < self.n_m2[k] {
                let nd = domain(k).0.len() as u64;
                let np = self.pats2[k].len() as u64;
                let v = unrank(idx, &[2, nd, np, np]);
                let (b1, bare1) = arm_body(0, 50);
                let (b2, bare2) = arm_body(1, 60);
                let mut arms = vec![
                    Arm { pats: self.pats2[k][v[3] as usize].clone(), body: b1, bare: bare1 },
                    Arm { pats: self.pats2[k][v[2] as usize].clone(), body: b2, bare: bare2 },
                ];
                // a default arm may only come last and only once
                let has_default = arms.iter().any(|a| a.pats.iter().any(|p| matches!(p, Pat::Default)));
                if v[0] == 1 && !has_default {
                    arms.push(Arm { pats: vec![Pat::Default], body: vec![S::Expr(lit_i(70))], bare: true });
                }
                return (format!("match2 kind{}", k), match_program(k, v[1] as usize, arms));
            }
            idx -= self.n_m2[k];
        }
        if idx < self.n_mixed {
            // arms of two different kinds: must be rejected (same kind: accepted)
            let (k1, k2) = ((idx / KINDS as u64) as usize, (idx % KINDS as u64) as usize);
            let arms = vec![
                Arm { pats: vec![Pat::Lit(domain(k1).1[0].clone())], body: vec![S::Expr(lit_i(1))], bare: true },
                Arm { pats: vec![Pat::Lit(domain(k2).1[1].clone())], body: vec![S::Expr(lit_i(2))], bare: true },
            ];
            return ("match-mixed".into(), match_program(k1, 0, arms));
        }
        idx -= self.n_mixed;
        if idx < self.n_if {
            let (conds, br, has_else) = &self.if_cases[idx as usize];
            let e = if_chain(conds, br, *has_else);
            let p = vec![push_obs(e), S::Expr(call("len", vec![var("obs")]))];
            return ("if-chain".into(), with_obs(p));
        }
        idx -= self.n_if;
        let c = &self.loops[idx as usize];
        (format!("loops depth{}", c.depth), loop_program(c))
    }
    fn total(&self) -> u64 {
        self.n_m1.iter().sum::<u64>() + self.n_m2.iter().sum::<u64>() + self.n_mixed + self.n_if + self.loops.len() as u64
    }
}

/// a range pattern against a scrutinee of another kind: the value is not contained, so the arm must not match
/// (source text, expected canonical value of the match expression)
fn cross_kind_cases() -> Vec<(String, String)> {
    let scruts: &[(&str, &str)] = &[("int", "2"), ("float", "2.5"), ("str", "\"b\""), ("char", "'b'"), ("byte", "byte(98)"), ("bool", "true"), ("null", "null"), ("array", "[2]")];
    let ranges: &[(&str, &str)] = &[("int", "1..3"), ("int", "1..=3"), ("str", "\"a\"..\"c\""), ("char", "'a'..'c'"), ("byte", "b'a'..=b'c'")];
    let mut v = vec![];
    for (sk, sv) in scruts {
        for (rk, rv) in ranges {
            // same kind and the numeric cross-kinds the operators define are the main tables' business
            if sk == rk || (*rk == "int" && *sk == "float") {
                continue;
            }
            v.push((format!("match {} {{ {} => 1, _ => 2 }}", sv, rv), "i2".to_string()));
            v.push((format!("match {} {{ {} => 1 }}", sv, rv), "null".to_string()));
            v.push((format!("match {} {{ {} | {} => 1, _ => 2 }}", sv, rv, rv), "i2".to_string()));
        }
    }
    v
}

impl Property for P05 {
    fn id(&self) -> &'static str {
        "C05"
    }
    fn len(&self) -> u64 {
        self.total() + cross_kind_cases().len() as u64
    }
    fn describe(&self, idx: u64) -> Value {
        if idx >= self.total() {
            let c = &cross_kind_cases()[(idx - self.total()) as usize];
            return json!({"table": "range pattern x scrutinee of another kind", "source": c.0, "expected": c.1});
        }
        let (t, p) = self.prog(idx);
        json!({"table": t, "source": program_src(&p)})
    }
    fn run(&self, idx: u64) -> CaseOut {
        if idx >= self.total() {
            let (src, want) = cross_kind_cases()[(idx - self.total()) as usize].clone();
            return match guarded(|| crate::subject::run_src(&src).outcome) {
                Err(m) => CaseOut::viol("cross-kind panic", format!("panicked: {} on {}", one_line(&m, 160), src)),
                Ok(crate::subject::Outcome::Value(g)) if g == want => CaseOut::pass("cross-kind no-match"),
                // defect model of the known finding: the ordered comparison of the range test raises the
                // operators' own kind error instead of answering "not contained"
                Ok(crate::subject::Outcome::RtErr(m, _)) if m.starts_with("Invalid ") => CaseOut {
                    class: "cross-kind range test raises a kind error".into(),
                    verdict: known_or_violation("C05", "range-pattern-foreign-kind", format!("`{}` stops with '{}' instead of yielding {}", src, m, want)),
                    states: 1,
                    transitions: 1,
                    traces: 1,
                },
                Ok(o) => CaseOut::viol("cross-kind wrong", format!("`{}` gave {:?}, expected {}", src, o, want)),
            };
        }
        let (t, p) = self.prog(idx);
        // parser-level rejections of default-arm placement are outside the harness grammar
        compare_program(&t, &p)
    }
    fn rule(&self) -> String {
        "match: for each scrutinee kind (int -1..6, char a..e, byte a..e, strings, bool/other) every scrutinee value (through a recording probe, so single evaluation is observed) x one arm with every pattern alternative (every literal, every range lo..hi / lo..=hi over the literal values incl. empty and reversed, every 2-alternative and selected 3-alternative combination, _) x 3 body shapes x with/without a default arm; two-arm matches over a reduced alternative set; all 5x5 kind pairs for mixed-kind arms; every range pattern kind x scrutinee of every other kind (8 kinds) with / without a default arm and as a repeated alternative: the arm must not match; if: all chains of 1-2 conditions over 8 truthiness representatives and of 3 conditions over {false,true,0} x every branch shape (empty, value, ends in let, expr-then-let, let-then-expr) x with/without else; loops: every nest of depth 1-3 of while/loop x label presence per level x one break/continue (plain, to each level's label, to an unknown label) at every position (before/after the inner loop at every level) guarded by every iteration index combination of a 3-wide counter grid; oracle: RefEval".into()
    }
    fn bounds(&self) -> Value {
        json!({"match_one_arm": self.n_m1, "match_two_arms": self.n_m2, "mixed_kind_pairs": self.n_mixed, "if_chains": self.n_if, "loop_nests": self.loops.len(), "tier": self.tier.name()})
    }
    fn assumptions(&self) -> Vec<String> {
        vec!["RefEval is the trusted reference; byte/int pattern equality is counted as unspecified; a range pattern against a scrutinee of another kind has its own table (known finding range-pattern-foreign-kind)".into(),
             "negative integer patterns are not expressible in the grammar and are not generated".into()]
    }
}
