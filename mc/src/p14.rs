//! C14 — bytecode operands are encoded losslessly or the program is rejected.
//! (i) codec round trip, exhaustive over every opcode and every operand value of its widths;
//! (ii) the VM reads each operand with the width the encoder wrote (trace conformance on a program
//!      set that executes every opcode, incl. operands and jump targets beyond 2^8 and 2^15);
//! (iii) limit grid: programs just below, at and above each encoding limit must either be rejected
//!      by the compiler or behave as their closed-form expectation says.

use crate::bcmodel::*;
use crate::code::definitions::{lookup, make, read_operands};
use crate::code::opcode::Opcode;
use crate::compiler::Compiler;
use crate::fw::*;
use crate::subject::*;
use crate::vm::interpreter::VM;
use serde_json::{json, Value};

const NOPS: u8 = 48;

#[derive(Clone)]
struct Limit {
    kind: &'static str,
    n: usize,
    /// true: the encoding cannot hold this size, the compiler must reject the program
    over: bool,
    /// the exact byte offset of the jump target depends on the surrounding code: rejection and the
    /// correct result are both acceptable (never a wrong result)
    either: bool,
    src: String,
    /// expected canonical final value when the program is accepted
    want: String,
}

fn rep(n: usize, f: impl Fn(usize) -> String) -> String {
    let mut s = String::with_capacity(n * 8);
    for i in 0..n {
        s.push_str(&f(i));
    }
    s
}

fn limit_cases(tier: Tier) -> Vec<Limit> {
    let mut v = vec![];
    let around = |l: usize| vec![l - 1, l, l + 1, l + 2];
    // constant-pool index (2 bytes): n constants, the last one is the result
    for l in [256usize, 32768, 65536] {
        for n in around(l) {
            let src = format!("{}{};", rep(n - 1, |i| format!("{};\n", i)), 7_000_000 + n);
            v.push(Limit { kind: "constants", n, over: n > 65536, either: false, src, want: format!("i{}", 7_000_000 + n) });
        }
    }
    // global index (2 bytes; GLOBALS_SIZE = 65536)
    for l in [256usize, 32768, 65536] {
        for n in around(l) {
            let src = format!("{}g{};", rep(n, |i| format!("let g{} = {};\n", i, if i % 2 == 0 { "true" } else { "null" })), n - 1);
            let want = if (n - 1) % 2 == 0 { "true" } else { "null" };
            v.push(Limit { kind: "globals", n, over: n > 65536, either: false, src, want: want.into() });
            // the first global must still be the first one
            let src2 = format!("let first = 77;\n{}first;", rep(n - 1, |i| format!("let g{} = null;\n", i)));
            v.push(Limit { kind: "globals-first", n, over: n > 65536, either: false, src: src2, want: "i77".into() });
        }
    }
    // jump targets (2 bytes): forward jumps over a body of `pad` two-byte statements, for each jump opcode
    for l in [256usize, 32768, 65536] {
        for target in [l - 6, l - 2, l, l + 2, l + 8] {
            let pad = target / 2;
            let body = rep(pad, |_| "null;".to_string());
            // JumpIfFalse + Jump (if/else)
            v.push(Limit { kind: "jump-if", n: target, over: false, either: true, src: format!("let r = if false {{ {} 1 }} else {{ 2 }}; r;", body), want: "i2".into() });
            v.push(Limit { kind: "jump-else", n: target, over: false, either: true, src: format!("let r = if true {{ 1 }} else {{ {} 2 }}; r + 10;", body), want: "i11".into() });
            // JumpIfFalseNoPop (&& with a falsey left operand, || with a falsey left operand)
            v.push(Limit { kind: "jump-and", n: target, over: false, either: true, src: format!("let r = 0 && if true {{ {} 1 }}; r;", body), want: "i0".into() });
            v.push(Limit { kind: "jump-or", n: target, over: false, either: true, src: format!("let r = 0 || if true {{ {} 5 }}; r;", body), want: "i5".into() });
            // while: forward exit jump and backward jump to a loop head placed after `pad` statements
            v.push(Limit { kind: "jump-while-exit", n: target, over: false, either: true, src: format!("let i = 0; while i < 2 {{ i = i + 1; {} }} i;", body), want: "i2".into() });
            v.push(Limit { kind: "jump-loop-head", n: target, over: false, either: true, src: format!("{} let i = 0; while i < 3 {{ i = i + 1; if i == 2 {{ continue; }} }} i;", body), want: "i3".into() });
            v.push(Limit { kind: "jump-break", n: target, over: false, either: true, src: format!("let i = 0; loop {{ i = i + 1; if i == 2 {{ break; }} {} }} i;", body), want: "i2".into() });
            v.push(Limit { kind: "jump-match", n: target, over: false, either: true, src: format!("let r = match 1 {{ 1 => {{ {} 4 }} _ => 5 }}; r;", body), want: "i4".into() });
            v.push(Limit { kind: "jump-in-function", n: target, over: false, either: true, src: format!("fn f(c) {{ if c {{ {} 1 }} else {{ 2 }} }} f(false) + f(true) * 10;", body), want: "i12".into() });
        }
    }
    // array elements / map pairs (2 bytes); results are only observable below the VM's 4096-slot stack
    for n in [255usize, 256, 257, 4000, 65535, 65536, 65537] {
        v.push(Limit { kind: "array-elements", n, over: n > 65535, either: false, src: format!("len([{}]);", rep(n, |i| if i == 0 { "null".into() } else { ",null".to_string() })), want: format!("i{}", n) });
    }
    for n in [127usize, 128, 129, 1500, 32767, 32768, 32769] {
        v.push(Limit { kind: "map-pairs", n, over: 2 * n > 65535, either: false, src: format!("len(map {{{}}});", rep(n, |i| format!("{}{}: true", if i == 0 { "" } else { "," }, i))), want: format!("i{}", n) });
    }
    // locals per function (1 byte)
    for n in [255usize, 256, 257, 258] {
        let src = format!("fn f() {{ {} l{} }} f();", rep(n, |i| format!("let l{} = {};", i, i + 1000)), n - 1);
        v.push(Limit { kind: "locals", n, over: n > 256, either: false, src, want: format!("i{}", n - 1 + 1000) });
        let src2 = format!("fn f() {{ let first = 77; {} first }} f();", rep(n - 1, |i| format!("let l{} = null;", i)));
        v.push(Limit { kind: "locals-first", n, over: n > 256, either: false, src: src2, want: "i77".into() });
    }
    // call arguments (1 byte)
    for n in [254usize, 255, 256, 257] {
        let params = rep(n, |i| format!("{}p{}", if i == 0 { "" } else { "," }, i));
        let args = rep(n, |i| format!("{}{}", if i == 0 { "" } else { "," }, i + 500));
        v.push(Limit { kind: "call-arguments", n, over: n > 255, either: false, src: format!("fn f({}) {{ p{} }} f({});", params, n - 1, args), want: format!("i{}", n - 1 + 500) });
        v.push(Limit { kind: "call-arguments-first", n, over: n > 255, either: false, src: format!("fn f({}) {{ p0 }} f({});", params, args), want: "i500".into() });
    }
    // captured variables (1 byte)
    for n in [254usize, 255, 256] {
        let lets = rep(n, |i| format!("let v{} = {};", i, i));
        let sum = rep(n, |i| format!("{}v{}", if i == 0 { "" } else { " + " }, i));
        v.push(Limit { kind: "captured-variables", n, over: n > 255, either: false, src: format!("fn outer() {{ {} fn() {{ {} }} }} outer()();", lets, sum), want: format!("i{}", n * (n - 1) / 2) });
        v.push(Limit { kind: "captured-variables-last", n, over: n > 255, either: false, src: format!("fn outer() {{ {} fn() {{ let t = {}; v{} }} }} outer()();", lets, sum, n - 1), want: format!("i{}", n - 1) });
    }
    if tier == Tier::Quick {
        // the quick tier keeps one representative of the most expensive kinds
        // (compiling one program with ~65536 statements is quadratic in the implementation: the 2^16 boundary
        // of the constant and global indices is probed through chained compilation units instead, see below)
        v.retain(|c| !((c.kind.starts_with("globals") || c.kind == "constants") && c.n > 40000));
    }
    v
}

/// programs that together execute every opcode (asserted), incl. wide operands
fn opcode_programs(scratch: &std::path::Path) -> Vec<String> {
    let pcap = scratch.join("one.pcap");
    let _ = std::fs::write(&pcap, crate::p06::one_packet_pcap());
    let p = pcap.to_str().unwrap();
    let big = rep(17000, |_| "null;".to_string());
    vec![
        "let a = 1 + 2 - 3 * 4 / 5 % 6; a = a + 1; let b = true == false != true; let c = 1 > 2; let d = 1 >= 2; -a; !b; ~a; a & 1 | 2 ^ 3 << 1 >> 1;".into(),
        "let x = [1, 2]; x[0] = 5; x[1]; let m = map {1: 2}; m[1]; null; if x[0] > 1 { 1 } else { 2 }; 0 && 1; 1 || 0;".into(),
        "fn f(a) { let l = a; l = l + 1; return l; } f(1); fn g() { } g(); let mk = fn(a) { fn() { a = a + 1; a } }; mk(1)(); fn r(n) { if n > 0 { r(n - 1) } } r(2);".into(),
        "len([1]); argv; match 2 { 1 | 2 => 1, 3..5 => 2, _ => 3 }; $0;".into(),
        format!("let f = pcap_open(\"{}\"); let p = pcap_read_next(f); p.caplen; p.sec = 5; p.eth.src; f.magic;", p),
        // wide operands: constant index, global index and jump targets above 2^8 and 2^15
        format!("{} let q = 0 && 1; let w = 0 || 2; let e = if q {{ 1 }} else {{ 3 }}; let i = 0; while i < 2 {{ i = i + 1; }} let z = fn() {{ 9 }}; z() + e + w;", big),
        format!("{} {} let t = [1, 2, 3]; t[0] + 70000;", rep(40000, |i| format!("let h{} = {};", i, i)), "h39999 + h300;"),
    ]
}

pub struct P14 {
    limits: Vec<Limit>,
    nprog: u64,
    tier: Tier,
}
impl P14 {
    pub fn new(tier: Tier) -> P14 {
        P14 { limits: limit_cases(tier), nprog: 1, tier }
    }
}

impl Property for P14 {
    fn id(&self) -> &'static str {
        "C14"
    }
    fn len(&self) -> u64 {
        NOPS as u64 + self.nprog + self.limits.len() as u64 + 1
    }
    fn horizon_secs(&self) -> u64 {
        120
    }
    fn describe(&self, idx: u64) -> Value {
        if idx < NOPS as u64 {
            json!({"codec": format!("{:?}", Opcode::from(idx as u8)), "operands": "every value of every operand width"})
        } else if idx < NOPS as u64 + self.nprog {
            json!({"trace-conformance": "programs executing every opcode, incl. operands and jump targets beyond 2^8 and 2^15"})
        } else if idx < NOPS as u64 + self.nprog + self.limits.len() as u64 {
            let l = &self.limits[(idx - NOPS as u64 - self.nprog) as usize];
            json!({"limit": l.kind, "size": l.n, "must_be_rejected": l.over, "expected_value": l.want, "source_head": l.src.chars().take(160).collect::<String>(), "source_len": l.src.len()})
        } else {
            json!({"limit": "constants accumulated over a REPL session (Compiler::new_with_state chained like run_prompt)"})
        }
    }
    fn run(&self, idx: u64) -> CaseOut {
        if idx < NOPS as u64 {
            // (i) codec round trip
            let opb = idx as u8;
            let op = Opcode::from(opb);
            let def = match lookup(opb) {
                Ok(d) => d,
                Err(e) => return CaseOut::viol("codec no-definition", format!("opcode {} has no definition: {}", opb, e)),
            };
            // learn the widths from an all-zero encoding
            let probe = make(op, &[0, 0], 1);
            let (ops0, used) = read_operands(def, &probe.code[1..]);
            let widths: Vec<usize> = match (ops0.len(), used) {
                (0, _) => vec![],
                (1, w) => vec![w],
                (2, 3) => vec![2, 1],
                _ => return CaseOut::viol("codec widths", format!("unexpected operand layout for {:?}", op)),
            };
            let full = self.tier == Tier::Thorough;
            let dom = |w: usize, other_wide: bool| -> Vec<usize> {
                let max = if w == 2 { 65536 } else { 256 };
                if full || !other_wide {
                    (0..max).collect()
                } else {
                    vec![0, 1, 127, 128, 254, 255, 256, 32767, 32768, 65534, 65535].into_iter().filter(|x| *x < max).collect()
                }
            };
            let mut n = 0u64;
            let r = guarded(|| -> Result<(), String> {
                let d0: Vec<usize> = if widths.is_empty() { vec![0] } else { dom(widths[0], false) };
                let d1: Vec<usize> = if widths.len() > 1 { dom(widths[1], false) } else { vec![0] };
                // for the two-operand opcode the quick tier pairs every first operand with boundary second
                // operands and every second operand with boundary first operands
                let mut pairs: Vec<(usize, usize)> = vec![];
                if widths.len() < 2 || full {
                    for a in &d0 {
                        for b in &d1 {
                            pairs.push((*a, *b));
                        }
                    }
                } else {
                    for a in &d0 {
                        for b in [0usize, 1, 2, 127, 128, 254, 255] {
                            pairs.push((*a, b));
                        }
                    }
                    for b in &d1 {
                        for a in [0usize, 1, 255, 256, 257, 32767, 32768, 65535] {
                            pairs.push((a, *b));
                        }
                    }
                }
                for (a, b) in pairs {
                    let operands: Vec<usize> = match widths.len() {
                        0 => vec![],
                        1 => vec![a],
                        _ => vec![a, b],
                    };
                    let ins = make(op, &operands, 3);
                    n += 1;
                    if ins.code.is_empty() || Opcode::from(ins.code[0]) != op {
                        return Err(format!("make({:?}, {:?}) does not start with the opcode", op, operands));
                    }
                    if ins.lines.len() != ins.code.len() || ins.lines.iter().any(|l| *l != 3) {
                        return Err(format!("make({:?}, {:?}) records lines {:?} for {} bytes", op, operands, ins.lines, ins.code.len()));
                    }
                    let d = lookup(ins.code[0]).map_err(|e| e.to_string())?;
                    let (dec, used) = read_operands(d, &ins.code[1..]);
                    if dec != operands {
                        return Err(format!("{:?} made from {:?} decodes back to {:?}", op, operands, dec));
                    }
                    if used + 1 != ins.code.len() {
                        return Err(format!("{:?} {:?}: {} bytes emitted, {} consumed by the decoder", op, operands, ins.code.len(), used + 1));
                    }
                }
                Ok(())
            });
            let class = format!("codec {} operand(s)", widths.len());
            return match r {
                Err(m) => CaseOut::viol(format!("{} panic", class), format!("{:?}: panicked: {}", op, m)),
                Ok(Err(m)) => CaseOut::viol(format!("{} mismatch", class), m).with_counts(n, n, n),
                Ok(Ok(())) => CaseOut::pass(class).with_counts(n, n, n),
            };
        }
        let idx = idx - NOPS as u64;
        if idx < self.nprog {
            // (ii) the VM follows the definitions table: every executed step continues at ip + 1 + widths
            let dir = scratch_dir("c14");
            let mut seen = std::collections::BTreeSet::new();
            let (mut states, mut trans, mut steps) = (0, 0, 0);
            for src in opcode_programs(&dir) {
                let r = guarded(|| -> Result<(u64, u64, u64, Vec<u8>), String> {
                    let bc = match front(&src) {
                        Front::Compiled(bc) => bc,
                        _ => return Err(format!("opcode program does not compile: {}", &src[..src.len().min(200)])),
                    };
                    let mut funcs = functions_of(&bc);
                    let ex = explore(&funcs);
                    if let Some(e) = &ex.decode_error {
                        return Err(format!("compiled bytecode does not decode: {}", e));
                    }
                    if !ex.bad_targets.is_empty() {
                        return Err(format!("jump into the middle of an instruction: {:?}", ex.bad_targets[0]));
                    }
                    let mut vm = VM::new(bc);
                    init_vars(&vm);
                    vm.verif_trace = Some(Vec::new());
                    let res = vm.run();
                    let trace = vm.verif_trace.take().unwrap();
                    if let Err(e) = res {
                        return Err(format!("opcode program failed at run time: {} (line {})", e.msg, e.line));
                    }
                    let n = validate_trace(&mut funcs, &ex, &trace)?;
                    let by_ptr: std::collections::BTreeMap<usize, usize> = funcs.iter().enumerate().map(|(i, f)| (f.code_ptr, i)).collect();
                    let mut ops = vec![];
                    for (_, ip, _, _, ptr) in &trace {
                        ops.push(funcs[by_ptr[ptr]].code.code[*ip]);
                    }
                    Ok((ex.states, ex.transitions, n, ops))
                });
                match r {
                    Err(m) => return CaseOut::viol("trace panic", format!("panicked: {}", m)),
                    Ok(Err(m)) => return CaseOut::viol("trace mismatch", format!("the VM does not read operands the way the encoder wrote them: {}", m)),
                    Ok(Ok((s, t, n, ops))) => {
                        states += s;
                        trans += t;
                        steps += n;
                        seen.extend(ops);
                    }
                }
            }
            let missing: Vec<String> = (0..NOPS).filter(|o| !seen.contains(o)).map(|o| format!("{:?}", Opcode::from(o))).collect();
            if !missing.is_empty() {
                return CaseOut::viol("trace coverage", format!("MACHINERY: the opcode program set never executes {:?}", missing));
            }
            return CaseOut::pass("trace conformance, all 48 opcodes executed").with_counts(states, trans, steps);
        }
        let idx = idx - self.nprog;
        if (idx as usize) < self.limits.len() {
            let l = &self.limits[idx as usize];
            let class = format!("limit {} {}", l.kind, if l.over { "over" } else { "within" });
            let got = guarded(|| run_src(&l.src).outcome);
            return match got {
                Err(m) => CaseOut::viol(format!("{} panic", class), format!("{} = {}: panicked: {}", l.kind, l.n, one_line(&m, 200))),
                Ok(Outcome::CompileErr) => {
                    if l.over || l.either {
                        CaseOut::pass(format!("{} rejected", class))
                    } else {
                        CaseOut::viol(format!("{} spurious-reject", class), format!("{} = {} fits the encoding but the compiler rejected the program", l.kind, l.n))
                    }
                }
                Ok(Outcome::ParseErr) => CaseOut::viol(format!("{} parse", class), format!("MACHINERY: limit program {} = {} does not parse", l.kind, l.n)),
                Ok(Outcome::Value(v)) => {
                    if l.over {
                        CaseOut::viol(format!("{} accepted", class), format!("{} = {} cannot be encoded but the program was accepted (result {}, closed form {})", l.kind, l.n, v, l.want))
                    } else if v == l.want {
                        CaseOut::pass(format!("{} correct", class))
                    } else {
                        CaseOut::viol(format!("{} miscompiled", class), format!("{} = {}: result {} but the closed form is {}", l.kind, l.n, v, l.want))
                    }
                }
                Ok(Outcome::RtErr(m, _)) => {
                    if l.over {
                        CaseOut::viol(format!("{} accepted", class), format!("{} = {} cannot be encoded but the program was accepted (then failed at run time: {})", l.kind, l.n, m))
                    } else if m.contains("Stack overflow") && (l.kind == "array-elements" || l.kind == "map-pairs") && l.n > 2000 {
                        // more literal elements than the VM's operand stack holds: a reported resource error, not an encoding matter
                        CaseOut::pass(format!("{} reported-stack-overflow", class))
                    } else {
                        CaseOut::viol(format!("{} runtime-error", class), format!("{} = {}: runtime error '{}' but the closed form is {}", l.kind, l.n, m, l.want))
                    }
                }
            };
        }
        // constants accumulated over a REPL session
        let r = guarded(|| -> Result<(u64, String), String> {
            let mut symtab = Compiler::new().symtab.clone();
            let mut constants = vec![];
            let data = std::rc::Rc::new(crate::object::Object::Null);
            let mut globals = vec![data; crate::vm::interpreter::GLOBALS_SIZE];
            // 16 lines of 4096 constants reach index 65535 exactly; the 17th line needs index 65536.
            // Every line also defines and reads a global, so global indices run alongside.
            let per_line = 4096;
            let mut lines = 0u64;
            for line_no in 0..18 {
                let base = line_no * per_line;
                let n_here = if line_no < 16 { per_line } else { 1 };
                let src = if n_here == 1 {
                    format!("{};", 9_000_000 + line_no)
                } else {
                    format!("let keep{} = {};{}keep{};", line_no, 9_000_000 + line_no, rep(per_line - 1, |i| format!("{};", base + i)), line_no)
                };
                let (prog, errs) = parse_only(&src);
                if !errs.is_empty() {
                    return Err("MACHINERY: REPL line does not parse".into());
                }
                let mut c = Compiler::new_with_state(symtab.clone(), constants.clone());
                let total_after = if line_no < 16 { (line_no + 1) * per_line } else { 16 * per_line + (line_no - 15) };
                match c.compile(prog) {
                    Err(_) => {
                        if total_after <= 65536 {
                            return Err(format!("line {} (constants so far {}) was rejected although every index fits", line_no, total_after));
                        }
                        return Ok((lines, format!("rejected at {} accumulated constants", total_after)));
                    }
                    Ok(()) => {
                        if total_after > 65536 {
                            // accepted beyond the limit: the value must at least be right; the property demands rejection
                            return Err(format!("line {} needs constant indices up to {} but was accepted", line_no, total_after - 1));
                        }
                    }
                }
                let mut vm = VM::new_with_global_store(c.bytecode(), globals);
                match vm.run() {
                    Ok(()) => {
                        let v = canon(&vm.last_popped());
                        if v != format!("i{}", 9_000_000 + line_no) {
                            return Err(format!("line {} (constants up to {}): result {} instead of {}", line_no, total_after, v, 9_000_000 + line_no));
                        }
                    }
                    Err(e) => return Err(format!("line {}: runtime error {}", line_no, e.msg)),
                }
                globals = vm.globals;
                symtab = c.symtab.clone();
                constants = c.constants.clone();
                lines += 1;
            }
            Ok((lines, "never rejected".into()))
        });
        let (n1, how1) = match r {
            Err(m) => return CaseOut::viol("repl-constants panic", format!("panicked: {}", m)),
            Ok(Err(m)) => return CaseOut::viol("repl-constants", m),
            Ok(Ok(x)) => x,
        };
        // the same for global indices: 16 units of 4096 lets fill slots 0..65535, one more let must be rejected
        let r2 = guarded(|| -> Result<(u64, String), String> {
            let mut symtab = Compiler::new().symtab.clone();
            let mut constants = vec![];
            let data = std::rc::Rc::new(crate::object::Object::Null);
            let mut globals = vec![data; crate::vm::interpreter::GLOBALS_SIZE];
            let mut units = 0u64;
            for unit in 0..18usize {
                let src = if unit < 16 {
                    format!("{}g{};", rep(4096, |i| format!("let g{} = {};", unit * 4096 + i, if i == 7 { "true" } else { "null" })), unit * 4096 + 7)
                } else if unit == 16 {
                    "[g0, g7, g4096, g4103, g65535, g61447];".to_string()
                } else {
                    "let one_too_many = 5; g7;".to_string()
                };
                let (prog, errs) = parse_only(&src);
                if !errs.is_empty() {
                    return Err("MACHINERY: unit does not parse".into());
                }
                let mut c = Compiler::new_with_state(symtab.clone(), constants.clone());
                match c.compile(prog) {
                    Err(e) => {
                        if unit < 17 {
                            return Err(format!("unit {} was rejected although every global index fits: {}", unit, e.msg));
                        }
                        return Ok((units, "65537th global rejected".into()));
                    }
                    Ok(()) => {
                        if unit == 17 {
                            return Err("the 65537th global was accepted (its index 65536 cannot be encoded)".into());
                        }
                    }
                }
                let mut vm = VM::new_with_global_store(c.bytecode(), globals);
                match vm.run() {
                    Ok(()) => {
                        let v = canon(&vm.last_popped());
                        let want = if unit < 16 { "true".to_string() } else { "[null,true,null,true,null,true]".to_string() };
                        if v != want {
                            return Err(format!("unit {}: result {} instead of {}", unit, v, want));
                        }
                    }
                    Err(e) => return Err(format!("unit {}: runtime error {}", unit, e.msg)),
                }
                globals = vm.globals;
                symtab = c.symtab.clone();
                constants = c.constants.clone();
                units += 1;
            }
            Ok((units, "never rejected".into()))
        });
        match r2 {
            Err(m) => CaseOut::viol("repl-globals panic", format!("panicked: {}", m)),
            Ok(Err(m)) => CaseOut::viol("repl-globals", m),
            Ok(Ok((n2, how2))) => CaseOut::pass(format!("chained units: constants {}; globals {}", how1, how2)).with_counts(n1 + n2, n1 + n2, n1 + n2),
        }
    }
    fn rule(&self) -> String {
        "(i) for each of the 48 opcodes, make() then lookup()+read_operands() over every operand value of its widths (thorough: the full 65536x256 product for the two-operand opcode; quick: every value of each operand against boundary values of the other) must return the opcode, the operands, the emitted length and one line entry per byte; (ii) seven programs that together execute all 48 opcodes (asserted), with constant/global indices and jump targets beyond 2^8 and 2^15, are run on the real VM with the trace hook: every executed step must continue at ip + 1 + operand widths of the definitions table (or at the decoded jump target) and jumps must land on instruction boundaries; (iii) limit grid: constants, globals, forward/backward jump targets for every jump-emitting construct (if, else, &&, ||, while exit, loop head, break, match, inside a function), array elements, map pairs, locals, call arguments, captured variables at sizes around 2^8, 2^15 and 2^16 (limit-1, limit, limit+1, limit+2), and constants accumulated over a chained REPL session: the compiler must reject what the encoding cannot hold and everything accepted must evaluate to its closed-form expectation".into()
    }
    fn bounds(&self) -> Value {
        json!({"opcodes": NOPS, "limit_programs": self.limits.len(), "tier": self.tier.name()})
    }
    fn assumptions(&self) -> Vec<String> {
        vec!["array/map literals with more elements than the VM's 4096-slot operand stack end in a reported 'Stack overflow!'; that is accepted for sizes the encoding can hold".into(),
             "limits are probed at limit-1..limit+2 only".into()]
    }
}
