//! C22 — operating-system I/O failures become error objects, not crashes (fault enumeration).
//! Every opener x failing target x follow-up call sequence, run as a script through the real
//! compiler and VM so that "the program continues" is observable (a sentinel follows every call).

use crate::fw::*;
use crate::pkt::*;
use crate::subject::*;
use serde_json::{json, Value};

#[derive(Clone, Copy, Debug, PartialEq)]
enum Target {
    Missing,
    Dir,
    Existing,
    DevFull,
    ThroughFile,
    EmptyFile,
    Short10,
    Garbage24,
    ShortRecord,
    GoodPcap,
    GoodText,
    /// a valid pcap global header cut after 4 / 8 / 23 bytes
    Prefix4,
    Prefix8,
    Prefix23,
    /// a valid capture whose second record announces a caplen above the snaplen (non-pcap content in mid-stream): good, BAD, good
    BadCaplenMid,
    /// the same with the damaged record first: BAD, good
    BadCaplenFirst,
}
const TARGETS: &[Target] = &[
    Target::Missing, Target::Dir, Target::Existing, Target::DevFull, Target::ThroughFile, Target::EmptyFile, Target::Short10, Target::Garbage24,
    Target::ShortRecord, Target::GoodPcap, Target::GoodText, Target::Prefix4, Target::Prefix8, Target::Prefix23, Target::BadCaplenMid, Target::BadCaplenFirst,
];

/// (source text of the opener with P for the path, kind of handle it yields)
const OPENERS: &[(&str, &str)] = &[
    ("open(P)", "reader"),
    ("open(P, \"r\")", "reader"),
    ("open(P, \"w\")", "writer"),
    ("open(P, \"a\")", "writer"),
    ("open(P, \"x\")", "writer"),
    ("pcap_open(P)", "pcap-reader"),
    ("pcap_open(P, \"r\")", "pcap-reader"),
    ("pcap_open(P, \"w\")", "pcap-writer"),
    ("pcap_open(P, \"x\")", "pcap-writer"),
];

fn followups(kind: &str) -> Vec<&'static str> {
    match kind {
        "reader" => vec!["read(h)", "read(h, 10)", "read_line(h)", "read_to_string(h)"],
        "writer" => vec!["write(h, \"x\")", "write(h, big)", "flush(h)", "write(h, [byte(1), byte(2)])", "write(h, nl)", "write(h, byte(10))", "write(h, pk)", "write(h, \"\")"],
        "pcap-reader" => vec!["pcap_read_next(h)", "pcap_read_all(h)", "pcap_read_all(h, 1)"],
        _ => vec!["pcap_write(h, pk)", "many_writes(h)"],
    }
}

/// does `open` itself meet an OS failure (or invalid content) for this target?
fn open_fails(op: &str, t: Target) -> bool {
    let mode = if op.contains("\"w\"") { "w" } else if op.contains("\"a\"") { "a" } else if op.contains("\"x\"") { "x" } else { "r" };
    let pcap = op.starts_with("pcap_open");
    let os_fail = match (t, mode) {
        (Target::Missing, "r") => true,
        (Target::Missing, _) => false,
        (Target::Dir, "r") => false, // opening a directory read-only succeeds on Linux; the first read fails
        (Target::Dir, _) => true,
        (Target::ThroughFile, _) => true,
        (Target::DevFull, "x") => true,
        (Target::DevFull, _) => false,
        (_, "x") => true, // every other target exists
        _ => false,
    };
    if os_fail {
        return true;
    }
    if pcap && mode == "r" {
        // reading the global header: a directory (EISDIR), too short or non-pcap content
        return matches!(t, Target::Dir | Target::EmptyFile | Target::Short10 | Target::Garbage24 | Target::GoodText | Target::Existing | Target::DevFull | Target::Prefix4 | Target::Prefix8 | Target::Prefix23);
    }
    false
}

/// does this follow-up call meet an OS failure, given the state reached? (None = may or may not, e.g. buffered)
fn followup_fails(call: &str, t: Target, pending_before: usize) -> Option<bool> {
    match t {
        Target::Dir if call.starts_with("read") => Some(true),
        Target::DevFull => {
            if call.starts_with("read") {
                return Some(false);
            }
            if call == "flush(h)" {
                return Some(pending_before > 0);
            }
            if call == "write(h, big)" || call == "many_writes(h)" {
                return Some(true); // larger than the 8 KiB buffer: the device is hit
            }
            if call.starts_with("write") || call.starts_with("pcap_write") {
                return Some(false); // stays in the buffer
            }
            Some(false)
        }
        Target::ShortRecord | Target::GoodPcap | Target::Prefix4 | Target::Prefix8 | Target::Prefix23 | Target::BadCaplenMid | Target::BadCaplenFirst if call == "read_line(h)" || call == "read_to_string(h)" => None, // not UTF-8: not an OS failure
        _ => {
            if call.starts_with("pcap_read") && t == Target::ShortRecord {
                None // end of data inside a record: null or an error object
            } else {
                Some(false)
            }
        }
    }
}

/// Record-stream model for the damaged captures: which records are good, where the reader stands, and whether the
/// damaged record has been met. A read that meets the damaged record with nothing to return must return an error
/// object; `pcap_read_all` that already collected packets may return them, and then the *next* read on the handle
/// must report the error (the stream position is lost behind a record header that cannot be trusted).
struct RecStream {
    good: Vec<bool>,
    pos: usize,
    deferred: bool,
    reported: bool,
}
impl RecStream {
    fn for_target(t: Target) -> Option<RecStream> {
        match t {
            Target::BadCaplenMid => Some(RecStream { good: vec![true, false, true], pos: 0, deferred: false, reported: false }),
            Target::BadCaplenFirst => Some(RecStream { good: vec![false, true], pos: 0, deferred: false, reported: false }),
            _ => None,
        }
    }
    fn step(&mut self, call: &str) -> Option<bool> {
        if self.reported {
            return None; // after a reported failure the handle's further answers are not this property's business
        }
        if self.deferred {
            self.reported = true;
            return Some(true);
        }
        let at_bad = |s: &RecStream| s.pos < s.good.len() && !s.good[s.pos];
        match call {
            "pcap_read_next(h)" | "pcap_read_all(h, 1)" => {
                if at_bad(self) {
                    self.reported = true;
                    Some(true)
                } else {
                    if self.pos < self.good.len() {
                        self.pos += 1;
                    }
                    Some(false)
                }
            }
            _ => {
                let mut n = 0;
                while self.pos < self.good.len() && self.good[self.pos] {
                    self.pos += 1;
                    n += 1;
                }
                if at_bad(self) {
                    if n == 0 {
                        self.reported = true;
                        Some(true)
                    } else {
                        self.deferred = true;
                        None
                    }
                } else {
                    Some(false)
                }
            }
        }
    }
}

/// write calls on the standard-output handle, run through the binary with stdout redirected to /dev/full
const STDOUT_FULL: &[&str] = &["write(stdout, \"x\")", "write(stdout, nl)", "write(stdout, byte(10))", "write(stdout, [byte(120), byte(10)])", "write(stdout, pk)", "write(stdout, \"0123456789\" * 2000)", "flush(stdout)"];

#[derive(Clone)]
struct Case {
    opener: usize,
    target: usize,
    calls: Vec<&'static str>,
}

/// binary runs with a pcap on standard input
const N_STDIN: u64 = 6;

pub struct P22 {
    cases: Vec<Case>,
    e2e: bool,
}
impl P22 {
    pub fn new(tier: Tier) -> P22 {
        let mut cases = vec![];
        for (oi, (_, kind)) in OPENERS.iter().enumerate() {
            for ti in 0..TARGETS.len() {
                let mut f = followups(kind);
                if TARGETS[ti] == Target::DevFull && *kind == "reader" {
                    f.retain(|c| *c == "read(h, 10)"); // /dev/full reads as an endless stream of zeros
                }
                cases.push(Case { opener: oi, target: ti, calls: vec![] });
                for a in &f {
                    cases.push(Case { opener: oi, target: ti, calls: vec![a] });
                    for b in &f {
                        cases.push(Case { opener: oi, target: ti, calls: vec![a, b] });
                        if tier == Tier::Thorough {
                            for c in &f {
                                cases.push(Case { opener: oi, target: ti, calls: vec![a, b, c] });
                                // depth 4 only where the open succeeds (otherwise the follow-ups never run)
                                if !open_fails(OPENERS[oi].0, TARGETS[ti]) {
                                    for d in &f {
                                        cases.push(Case { opener: oi, target: ti, calls: vec![a, b, c, d] });
                                    }
                                }
                            }
                        }
                    }
                }
            }
        }
        P22 { cases, e2e: std::path::Path::new(&bin_path()).exists() }
    }
}

fn setup(dir: &std::path::Path) -> std::collections::BTreeMap<String, String> {
    let mut m = std::collections::BTreeMap::new();
    let p = |n: &str| dir.join(n).to_str().unwrap().to_string();
    let _ = std::fs::remove_dir_all(dir.join("t"));
    std::fs::create_dir_all(dir.join("t/adir")).unwrap();
    std::fs::write(dir.join("t/existing.txt"), b"hello\nworld\n").unwrap();
    std::fs::write(dir.join("t/empty"), b"").unwrap();
    std::fs::write(dir.join("t/short10"), &[1u8; 10]).unwrap();
    std::fs::write(dir.join("t/garbage24"), &[0x55u8; 24]).unwrap();
    let good = pcap_bytes(MAGIC_US, 65535, 1, &[Rec { sec: 1, usec: 2, wirelen: 60, data: (0..60).map(pat).collect() }]);
    std::fs::write(dir.join("t/good.pcap"), &good).unwrap();
    let mut short = good.clone();
    short.truncate(24 + 16 + 20);
    std::fs::write(dir.join("t/shortrec.pcap"), &short).unwrap();
    let g = |i: u32| Rec { sec: i, usec: 2, wirelen: 60, data: (0..60).map(pat).collect() };
    // the damaged record: a 16-byte record header announcing 70000 captured bytes under snaplen 65535
    let bad_hdr = |v: &mut Vec<u8>| {
        for x in [3u32, 4, 70000, 70000] {
            v.extend_from_slice(&x.to_le_bytes());
        }
    };
    let mut mid = pcap_bytes(MAGIC_US, 65535, 1, &[g(1)]);
    bad_hdr(&mut mid);
    mid.extend_from_slice(&record_bytes(&g(5)));
    std::fs::write(dir.join("t/badmid.pcap"), &mid).unwrap();
    let mut first = pcap_bytes(MAGIC_US, 65535, 1, &[]);
    bad_hdr(&mut first);
    first.extend_from_slice(&record_bytes(&g(5)));
    std::fs::write(dir.join("t/badfirst.pcap"), &first).unwrap();
    m.insert("BadCaplenMid".into(), p("t/badmid.pcap"));
    m.insert("BadCaplenFirst".into(), p("t/badfirst.pcap"));
    for k in [4usize, 8, 23] {
        std::fs::write(dir.join(format!("t/prefix{}", k)), &good[..k]).unwrap();
        m.insert(format!("Prefix{}", k), p(&format!("t/prefix{}", k)));
    }
    m.insert("Missing".into(), p("t/none"));
    m.insert("Dir".into(), p("t/adir"));
    m.insert("Existing".into(), p("t/existing.txt"));
    m.insert("DevFull".into(), "/dev/full".into());
    m.insert("ThroughFile".into(), p("t/existing.txt/below"));
    m.insert("EmptyFile".into(), p("t/empty"));
    m.insert("Short10".into(), p("t/short10"));
    m.insert("Garbage24".into(), p("t/garbage24"));
    m.insert("ShortRecord".into(), p("t/shortrec.pcap"));
    m.insert("GoodPcap".into(), p("t/good.pcap"));
    m.insert("GoodText".into(), p("t/existing.txt"));
    m
}

impl Property for P22 {
    fn id(&self) -> &'static str {
        "C22"
    }
    fn level(&self) -> &'static str {
        "fault_enumeration"
    }
    fn len(&self) -> u64 {
        self.cases.len() as u64 + if self.e2e { N_STDIN + STDOUT_FULL.len() as u64 } else { 0 }
    }
    fn describe(&self, idx: u64) -> Value {
        if idx as usize >= self.cases.len() + N_STDIN as usize {
            return json!({"standard output on /dev/full, then": STDOUT_FULL[idx as usize - self.cases.len() - N_STDIN as usize]});
        }
        if idx as usize >= self.cases.len() {
            return json!({"pcap_stream(stdin) through the binary with input": (["empty", "10 bytes", "24 bytes of garbage", "header + half a record", "closed stdin", "good record, record with caplen above snaplen, good record: pcap_read_all then pcap_read_next"][idx as usize - self.cases.len()])});
        }
        let c = &self.cases[idx as usize];
        json!({"opener": OPENERS[c.opener].0, "target": format!("{:?}", TARGETS[c.target]), "then": c.calls})
    }
    fn run(&self, idx: u64) -> CaseOut {
        let dir = scratch_dir("c22");
        if idx as usize >= self.cases.len() + N_STDIN as usize {
            let call = STDOUT_FULL[idx as usize - self.cases.len() - N_STDIN as usize];
            let paths = setup(&dir);
            let src = format!(
                "let pk = pcap_read_next(pcap_open(\"{}\")); let nl = \"line\" + str(char(10)); let r = {}; let f = flush(stdout); eprintln(\"{{}}\", is_error(r) || is_error(f)); eprintln(\"end\"); null;",
                paths["GoodPcap"], call
            );
            let o = run_bin_ext(&["-c", &src], &[], &[], 20, Some("/dev/full"));
            let e = o.err_s();
            if o.crashed() {
                return CaseOut::viol("stdout-full crash", format!("{} with standard output on a full device: the interpreter aborted: {}", call, one_line(&e, 200)));
            }
            if e.contains("Runtime error") || !e.contains("end") {
                return CaseOut::viol("stdout-full runtime-error", format!("{} with standard output on a full device: the program did not continue: {}", call, one_line(&e, 200)));
            }
            if call == "flush(stdout)" {
                // nothing was written: nothing fails
                if e.lines().next() != Some("false") {
                    return CaseOut::viol("stdout-full other", format!("flush(stdout) with nothing pending returned an error object"));
                }
            } else if e.lines().next() != Some("true") {
                return CaseOut::viol("stdout-full no-error-object", format!("{} then flush(stdout) with standard output on a full device: neither returned an error object", call));
            }
            return CaseOut::pass("stdout on a full device");
        }
        if idx as usize >= self.cases.len() {
            let k = idx as usize - self.cases.len();
            let good = pcap_bytes(MAGIC_US, 65535, 1, &[Rec { sec: 1, usec: 2, wirelen: 60, data: (0..60).map(pat).collect() }]);
            let input: Vec<u8> = match k {
                0 => vec![],
                1 => vec![7; 10],
                2 => vec![0x55; 24],
                3 => good[..24 + 16 + 30].to_vec(),
                _ => vec![],
            };
            if k == 5 {
                let paths = setup(&dir);
                let input = std::fs::read(&paths["BadCaplenMid"]).unwrap();
                let src = "let p = pcap_stream(stdin); println(\"{}\", is_error(p)); let a = pcap_read_all(p); println(\"{}\", is_error(a)); let q = pcap_read_next(p); println(\"{}\", is_error(a) || is_error(q)); println(\"end\");";
                let o = run_bin(&["-c", src], &input, &[], 20);
                let out = o.out_s();
                if o.crashed() {
                    return CaseOut::viol("pcap_stream crash", format!("damaged record on stdin: crashed: {}", one_line(&o.err_s(), 200)));
                }
                if !out.contains("end") || o.err_s().contains("Runtime error") {
                    return CaseOut::viol("pcap_stream runtime-error", format!("damaged record on stdin: the program did not continue: stdout {:?} stderr {}", out, one_line(&o.err_s(), 200)));
                }
                let l: Vec<&str> = out.lines().collect();
                if l.first() != Some(&"false") || l.get(2) != Some(&"true") {
                    return CaseOut::viol("pcap_stream no-error-object", format!("good record, record with caplen 70000 above snaplen 65535, good record on stdin: neither pcap_read_all nor the pcap_read_next after it returned an error object: {:?}", out));
                }
                return CaseOut::pass("pcap_stream(stdin)");
            }
            let src = "let p = pcap_stream(stdin); println(\"{}\", is_error(p)); if !is_error(p) { let q = pcap_read_next(p); println(\"{}\", q == null || is_error(q)); } println(\"end\");";
            let o = run_bin(&["-c", src], &input, &[], 20);
            let out = o.out_s();
            let want_err = k != 3;
            if o.crashed() {
                return CaseOut::viol("pcap_stream crash", format!("pcap_stream(stdin) on input #{}: crashed: {}", k, one_line(&o.err_s(), 200)));
            }
            if !out.contains("end") || o.err_s().contains("Runtime error") {
                return CaseOut::viol("pcap_stream runtime-error", format!("pcap_stream(stdin) on input #{}: the program did not continue: stdout {:?} stderr {}", k, out, one_line(&o.err_s(), 200)));
            }
            let first = out.lines().next().unwrap_or("");
            if (first == "true") != want_err {
                return CaseOut::viol("pcap_stream wrong", format!("pcap_stream(stdin) on input #{}: is_error = {} (expected {})", k, first, want_err));
            }
            if k == 3 && out.lines().nth(1) != Some("true") {
                return CaseOut::viol("pcap_stream wrong", format!("half a record on stdin: pcap_read_next gave neither null nor an error object: {:?}", out));
            }
            return CaseOut::pass("pcap_stream(stdin)");
        }
        let c = self.cases[idx as usize].clone();
        let r = guarded(|| -> Result<String, String> {
            let paths = setup(&dir);
            let t = TARGETS[c.target];
            let (op, kind) = OPENERS[c.opener];
            let path = &paths[&format!("{:?}", t)];
            // existing targets for mode "x"/"w" tests must be restored per case (setup does that)
            let mut src = String::new();
            src.push_str("let obs = [];\n");
            src.push_str(&format!("let pk = pcap_read_next(pcap_open(\"{}\"));\n", paths["GoodPcap"]));
            src.push_str("let nl = \"line\" + str(char(10));\n");
            src.push_str("let big = \"0123456789abcdef\" * 600;\n");
            src.push_str("fn many_writes(h) { let i = 0; let r = 0; while i < 200 { i = i + 1; r = pcap_write(h, pk); if is_error(r) { return r; } } r }\n");
            src.push_str(&format!("let h = {};\npush(obs, is_error(h));\n", op.replace("P", &format!("\"{}\"", path))));
            let mut expect: Vec<Option<bool>> = vec![Some(open_fails(op, t))];
            let open_ok = !open_fails(op, t);
            if open_ok {
                let mut pending = if kind == "pcap-writer" { 24 } else { 0 };
                let mut stream = if kind == "pcap-reader" { RecStream::for_target(t) } else { None };
                for call in &c.calls {
                    src.push_str(&format!("let r = {};\npush(obs, is_error(r));\n", call));
                    let f = match stream.as_mut() {
                        Some(st) => st.step(call),
                        None => followup_fails(call, t, pending),
                    };
                    expect.push(f);
                    // track what sits in the 8 KiB write buffer
                    if f == Some(true) && t == Target::DevFull {
                        pending = 0; // the failing spill/flush leaves the buffer state unspecified
                        break;
                    }
                    pending += match *call {
                        "write(h, \"x\")" => 1,
                        "write(h, [byte(1), byte(2)])" => 2,
                        "write(h, nl)" => 5,
                        "write(h, byte(10))" => 1,
                        "write(h, pk)" => 60,
                        "pcap_write(h, pk)" => 76,
                        "flush(h)" => {
                            pending = 0;
                            0
                        }
                        _ => 0,
                    };
                }
            }
            src.push_str("push(obs, \"end\");\nobs;\n");
            let cwd_guard = std::env::set_current_dir(&dir);
            let _ = cwd_guard;
            let got = run_src(&src).outcome;
            let what = format!("{} on {:?} then {:?}", op, t, c.calls);
            match got {
                Outcome::RtErr(m, line) => Err(format!("{}: the script stopped with a runtime error at line {}: {}", what, line, m)),
                Outcome::Value(v) => {
                    // v = [bool, bool, ..., "end"]
                    let items: Vec<&str> = v.trim_start_matches('[').trim_end_matches(']').split(',').collect();
                    if items.last() != Some(&"s\"end\"") {
                        return Err(format!("{}: the program did not reach its end: {}", what, v));
                    }
                    for (i, e) in expect.iter().enumerate() {
                        let g = items.get(i).copied().unwrap_or("?");
                        match e {
                            Some(true) if g != "true" => {
                                return Err(format!("{}: call #{} met an operating-system failure but did not return an error object (is_error = {})", what, i, g))
                            }
                            Some(false) if g != "false" => return Err(format!("{}: call #{} returned an error object although nothing fails there", what, i)),
                            _ => {}
                        }
                    }
                    Ok(format!("{} {:?}", kind, t))
                }
                o => Err(format!("MACHINERY: {}: {:?}\n{}", what, o, src)),
            }
        });
        match r {
            Err(m) => CaseOut::viol("panic", format!("panicked: {} ({} on {:?} then {:?})", one_line(&m, 200), OPENERS[c.opener].0, TARGETS[c.target], c.calls)),
            Ok(Err(m)) => {
                let cls = if m.contains("runtime error") { "runtime-error" } else if m.contains("did not return an error object") { "no-error-object" } else { "other" };
                CaseOut::viol(format!("{} {}", OPENERS[c.opener].1, cls), m)
            }
            Ok(Ok(class)) => CaseOut::pass(class).with_counts(1, c.calls.len() as u64 + 1, 1),
        }
    }
    fn rule(&self) -> String {
        format!("fault alphabet {:?} (ENOENT, EISDIR at open or at the first read, EEXIST under mode x, ENOSPC via /dev/full at flush or when the 8 KiB buffer spills, ENOTDIR, empty / 10-byte / garbage / half-record pcap input, a valid global header cut after 4 / 8 / 23 bytes, a record announcing a caplen above the snaplen in the middle or at the start of an otherwise valid capture — there the call that meets the damaged record with nothing to return must return an error object, and after a pcap_read_all that returned the packets before it the next read must) x openers {:?} x every sequence of <= 2 (quick) or <= 4 (thorough; 4 only after a successful open) follow-up calls appropriate to the handle (read, read(n), read_line, read_to_string / write small, write 9600 bytes, flush, write bytes / pcap_read_next, pcap_read_all / pcap_write, 200 pcap_writes); each sequence is a script run through the real compiler and VM; oracle: the script reaches its end without a runtime error, every call that meets the failure returns a value with is_error == true and every other call does not; pcap_stream(stdin) with each bad input through the binary; write/flush on the stdout handle through the binary with standard output redirected to /dev/full. EACCES cannot be provoked (the sandbox runs as root)", TARGETS, OPENERS.iter().map(|o| o.0).collect::<Vec<_>>())
    }
    fn bounds(&self) -> Value {
        json!({"sequences": self.cases.len(), "binary_runs": if self.e2e { N_STDIN as usize + STDOUT_FULL.len() } else { 0 }})
    }
    fn assumptions(&self) -> Vec<String> {
        vec!["argument-kind misuse (a reader handle given to write, an error object given to read) is C11's business and not generated".into(),
             "EACCES is not covered (no way to drop privileges)".into(),
             "which write of a sequence hits ENOSPC depends on BufWriter's 8 KiB buffer; the harness tracks the pending byte count".into()]
    }
}
