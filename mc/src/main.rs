//! p2sh-mc: bounded exhaustive exploration of the real p2sh code, one sub-command per property.
#![allow(dead_code, unused_imports, unused_variables, unexpected_cfgs, clippy::all)]

include!(concat!(env!("OUT_DIR"), "/mods.rs"));

mod fw;
mod subject;
mod ast;
mod progcmp;
mod refbuiltins;
mod refeval;
mod p01;
mod p02;
mod p03;
mod p04;
mod p05;
mod p06;
mod p07;
mod p08;
mod bcmodel;
mod p09;
mod p10;
mod p11;
mod p12;
mod p13;
mod p14;
mod p15;
mod p16;
mod p17;
mod p18;
mod p19;
mod p20;
mod p21;
mod p22;
mod p23;
mod p24;
mod pkt;
mod refval;

use fw::*;

fn make(id: &str, tier: Tier) -> Option<Box<dyn Property>> {
    Some(match id {
        "C01" => Box::new(p01::P01::new(tier)),
        "C02" => Box::new(p02::P02::new(tier)),
        "C03" => Box::new(p03::P03::new(tier)),
        "C04" => Box::new(p04::P04::new(tier)),
        "C05" => Box::new(p05::P05::new(tier)),
        "C06" => Box::new(p06::P06::new(tier)),
        "C10" => Box::new(p10::P10::new(tier)),
        "C07" => Box::new(p07::P07::new(tier)),
        "C13" => Box::new(p13::P13::new(tier)),
        "C14" => Box::new(p14::P14::new(tier)),
        "C08" => Box::new(p08::P08::new(tier)),
        "C11" => Box::new(p11::P11::new(tier)),
        "C12" => Box::new(p12::P12::new(tier)),
        "C15" => Box::new(p15::P15::new(tier)),
        "C16" => Box::new(p16::P16::new(tier)),
        "C17" => Box::new(p17::P17::new(tier)),
        "C18" => Box::new(p18::P18::new(tier)),
        "C19" => Box::new(p19::P19::new(tier)),
        "C20" => Box::new(p20::P20::new(tier)),
        "C21" => Box::new(p21::P21::new(tier)),
        "C24" => Box::new(p24::P24::new(tier)),
        "C23" => Box::new(p23::P23::new(tier)),
        "C22" => Box::new(p22::P22::new(tier)),
        "C09" => Box::new(p09::P09::new(tier)),
        _ => return None,
    })
}

fn usage() -> ! {
    eprintln!("usage: mc run <ID> <quick|thorough> | mc replay <file> | mc worker ... | mc list");
    std::process::exit(2)
}

fn main() {
    let args: Vec<String> = std::env::args().collect();
    if args.len() < 2 {
        usage();
    }
    // run everything on a big stack: the subject's parser and compiler are recursive
    let child = std::thread::Builder::new()
        .stack_size(1 << 30)
        .spawn(move || real_main(args))
        .expect("spawn main thread");
    let code = child.join().unwrap_or(2);
    std::process::exit(code);
}

fn real_main(args: Vec<String>) -> i32 {
    match args[1].as_str() {
        "run" => {
            if args.len() < 4 {
                usage();
            }
            let tier = Tier::parse(&args[3]).unwrap_or_else(|| usage());
            let p = match make(&args[2], tier) {
                Some(p) => p,
                None => {
                    eprintln!("unknown property {}", args[2]);
                    return 2;
                }
            };
            let _ = scratch_root(); // inherited by the workers through MC_SCRATCH_ROOT
            let code = parent_main(p.as_ref(), tier).exit_code;
            remove_scratch_root();
            code
        }
        "worker" => {
            if args.len() < 9 {
                usage();
            }
            let tier = Tier::parse(&args[3]).unwrap_or_else(|| usage());
            let p = make(&args[2], tier).unwrap_or_else(|| usage());
            let n = |i: usize| args[i].parse::<u64>().unwrap_or_else(|_| usage());
            worker_main(p.as_ref(), n(4), n(5), n(6), n(7), std::path::Path::new(&args[8]));
            0
        }
        "replay" => {
            if args.len() < 3 {
                usage();
            }
            let txt = match std::fs::read_to_string(&args[2]) {
                Ok(t) => t,
                Err(e) => {
                    eprintln!("cannot read {}: {}", args[2], e);
                    return 2;
                }
            };
            let v: serde_json::Value = match serde_json::from_str(&txt) {
                Ok(v) => v,
                Err(e) => {
                    eprintln!("bad replay file: {}", e);
                    return 2;
                }
            };
            let id = v["property"].as_str().unwrap_or("");
            let tier = Tier::parse(v["tier"].as_str().unwrap_or("quick")).unwrap_or(Tier::Quick);
            let idx = v["idx"].as_u64().unwrap_or(0);
            let p = match make(id, tier) {
                Some(p) => p,
                None => {
                    eprintln!("unknown property {}", id);
                    return 2;
                }
            };
            let _ = scratch_root();
            let code = replay_main(p.as_ref(), idx);
            remove_scratch_root();
            if code == 1 {
                println!("VIOLATION property={} replay={}", id, args[2]);
            }
            code
        }
        _ => usage(),
    }
}
