//! Thin adapters over the real p2sh code (compiled into this crate from the working tree).

use crate::compiler::{Bytecode, Compiler};
use crate::object::Object;
use crate::parser::ast::Program;
use crate::parser::Parser;
use crate::scanner::Scanner;
use crate::vm::interpreter::VM;
use std::io::{Read, Write};
use std::process::{Command, Stdio};
use std::rc::Rc;
use std::time::{Duration, Instant};

pub enum Front {
    ParseErrors(Vec<String>),
    CompileError(String, usize),
    Compiled(Bytecode),
}

/// The same front end sequence as `main.rs::run_buf`: parse, stop on diagnostics, compile.
pub fn front(src: &str) -> Front {
    let scanner = Scanner::new(src);
    let mut parser = Parser::new(scanner);
    let program: Program = parser.parse_program();
    if !parser.parse_errors().is_empty() {
        return Front::ParseErrors(parser.parse_errors().clone());
    }
    let mut compiler = Compiler::new();
    match compiler.compile(program) {
        Err(e) => Front::CompileError(e.msg.clone(), e.line),
        Ok(()) => Front::Compiled(compiler.bytecode()),
    }
}

pub fn parse_only(src: &str) -> (Program, Vec<String>) {
    let scanner = Scanner::new(src);
    let mut parser = Parser::new(scanner);
    let program: Program = parser.parse_program();
    let errs = parser.parse_errors().clone();
    (program, errs)
}

#[derive(Debug, Clone, PartialEq)]
pub enum Outcome {
    ParseErr,
    CompileErr,
    /// (canonical final value)
    Value(String),
    /// (message, line)
    RtErr(String, usize),
}

pub struct Ran {
    pub outcome: Outcome,
    pub vm: Option<VM>,
}

/// Full pipeline: parse, compile, run on a fresh VM. `last_popped` is rendered canonically.
pub fn run_src(src: &str) -> Ran {
    match front(src) {
        Front::ParseErrors(_) => Ran { outcome: Outcome::ParseErr, vm: None },
        Front::CompileError(..) => Ran { outcome: Outcome::CompileErr, vm: None },
        Front::Compiled(bc) => {
            let mut vm = VM::new(bc);
            init_vars(&vm);
            match vm.run() {
                Ok(()) => {
                    let v = vm.last_popped();
                    Ran { outcome: Outcome::Value(canon(&v)), vm: Some(vm) }
                }
                Err(e) => Ran { outcome: Outcome::RtErr(e.msg.clone(), e.line), vm: Some(vm) },
            }
        }
    }
}

pub fn init_vars(vm: &VM) {
    use crate::builtins::variables::BuiltinVarType;
    use crate::object::array::Array;
    let arr = Rc::new(Object::Arr(Rc::new(Array::new(vec![]))));
    vm.update_builtin_var(BuiltinVarType::Argv, arr);
}

/// Read global slot `i` of a VM (globals are numbered in definition order).
pub fn global(vm: &VM, i: usize) -> Rc<Object> {
    vm.globals[i].clone()
}

/// Canonical, deterministic rendering of a value (map entries sorted; floats by bit pattern
/// with all NaNs identified).
pub fn canon(o: &Object) -> String {
    match o {
        Object::Null => "null".into(),
        Object::Str(s) => format!("s{:?}", s),
        Object::Char(c) => format!("c{:?}", c),
        Object::Byte(b) => format!("y{}", b),
        Object::Integer(i) => format!("i{}", i),
        Object::Float(f) => canon_f64(*f),
        Object::Bool(b) => format!("{}", b),
        Object::Return(r) => format!("ret({})", canon(r)),
        Object::Builtin(b) => format!("<builtin {}>", b.name),
        Object::Func(_) => "<func>".into(),
        Object::Arr(a) => {
            let v: Vec<String> = a.elements.borrow().iter().map(|e| canon(e)).collect();
            format!("[{}]", v.join(","))
        }
        Object::Map(m) => {
            let mut v: Vec<String> =
                m.pairs.borrow().iter().map(|(k, v)| format!("{}=>{}", canon(k), canon(v))).collect();
            v.sort();
            format!("{{{}}}", v.join(","))
        }
        Object::Clos(_) => "<closure>".into(),
        Object::File(_) => "<file>".into(),
        Object::Err(_) => "<error>".into(),
        Object::Pcap(_) => "<pcap>".into(),
        Object::Packet(_) => "<packet>".into(),
        Object::Eth(_) => "<eth>".into(),
        Object::Vlan(_) => "<vlan>".into(),
        Object::Ipv4(_) => "<ipv4>".into(),
        Object::Ipv6(_) => "<ipv6>".into(),
        Object::Udp(_) => "<udp>".into(),
        Object::Tcp(_) => "<tcp>".into(),
    }
}

pub fn canon_f64(f: f64) -> String {
    if f.is_nan() {
        "fNaN".into()
    } else {
        format!("f{:016x}({:?})", f.to_bits(), f)
    }
}

pub fn kind(o: &Object) -> &'static str {
    match o {
        Object::Null => "null",
        Object::Str(_) => "str",
        Object::Char(_) => "char",
        Object::Byte(_) => "byte",
        Object::Integer(_) => "int",
        Object::Float(_) => "float",
        Object::Bool(_) => "bool",
        Object::Return(_) => "return",
        Object::Builtin(_) => "builtin",
        Object::Func(_) => "func",
        Object::Arr(_) => "array",
        Object::Map(_) => "map",
        Object::Clos(_) => "closure",
        Object::File(_) => "file",
        Object::Err(_) => "error",
        Object::Pcap(_) => "pcap",
        Object::Packet(_) => "packet",
        Object::Eth(_) => "eth",
        Object::Vlan(_) => "vlan",
        Object::Ipv4(_) => "ipv4",
        Object::Ipv6(_) => "ipv6",
        Object::Udp(_) => "udp",
        Object::Tcp(_) => "tcp",
    }
}

pub fn builtin(name: &str) -> crate::object::func::BuiltinFunctionProto {
    for b in crate::builtins::functions::BUILTINFNS {
        if b.name == name {
            return b.func;
        }
    }
    panic!("no builtin {}", name)
}

// ---------------------------------------------------------------------------------------------
// end-to-end through the built binary

pub fn bin_path() -> String {
    std::env::var("P2SH_BIN").unwrap_or_else(|_| "/verif/.cache/target-bin/debug/p2sh".to_string())
}

pub struct BinOut {
    pub status: Option<i32>,
    pub signal: Option<i32>,
    pub timed_out: bool,
    pub stdout: Vec<u8>,
    pub stderr: Vec<u8>,
}
impl BinOut {
    pub fn out_s(&self) -> String {
        String::from_utf8_lossy(&self.stdout).to_string()
    }
    pub fn err_s(&self) -> String {
        String::from_utf8_lossy(&self.stderr).to_string()
    }
    pub fn crashed(&self) -> bool {
        self.timed_out || self.signal.is_some() || self.status == Some(101) || self.err_s().contains("panicked at")
    }
}

/// Run the p2sh binary with the given argv and stdin; hard wall-clock limit.
pub fn run_bin(args: &[&str], stdin: &[u8], envs: &[(&str, &str)], timeout_s: u64) -> BinOut {
    run_bin_ext(args, stdin, envs, timeout_s, None)
}

/// As run_bin; `stdout_to` redirects the child's standard output to a path (e.g. /dev/full) instead of capturing it.
pub fn run_bin_ext(args: &[&str], stdin: &[u8], envs: &[(&str, &str)], timeout_s: u64, stdout_to: Option<&str>) -> BinOut {
    run_prog(&bin_path(), args, stdin, envs, timeout_s, stdout_to)
}

/// Run an arbitrary executable (e.g. a script with a #! line naming the p2sh binary).
pub fn run_prog(prog: &str, args: &[&str], stdin: &[u8], envs: &[(&str, &str)], timeout_s: u64, stdout_to: Option<&str>) -> BinOut {
    // a run that overruns its limit is repeated once with a six times longer one before it is called a hang:
    // on a heavily loaded machine a 16 ms process can stall for many seconds
    let first = run_prog_once(prog, args, stdin, envs, timeout_s, stdout_to);
    if first.timed_out {
        return run_prog_once(prog, args, stdin, envs, std::cmp::max(60, timeout_s * 6), stdout_to);
    }
    first
}

fn run_prog_once(prog: &str, args: &[&str], stdin: &[u8], envs: &[(&str, &str)], timeout_s: u64, stdout_to: Option<&str>) -> BinOut {
    let mut cmd = Command::new(prog);
    cmd.args(args).env("RUST_BACKTRACE", "0").stdin(Stdio::piped()).stderr(Stdio::piped());
    match stdout_to {
        Some(p) => {
            cmd.stdout(std::fs::OpenOptions::new().write(true).open(p).expect("cannot open stdout target"));
        }
        None => {
            cmd.stdout(Stdio::piped());
        }
    }
    for (k, v) in envs {
        cmd.env(k, v);
    }
    let mut child = {
        // a script file that was just written may still be "text file busy" for a moment on exec
        let mut tries = 0;
        loop {
            match cmd.spawn() {
                Ok(c) => break c,
                Err(e) if e.raw_os_error() == Some(26) && tries < 50 => {
                    tries += 1;
                    std::thread::sleep(Duration::from_millis(5));
                }
                Err(e) => panic!("cannot spawn {} (P2SH_BIN): {}", prog, e),
            }
        }
    };
    let mut si = child.stdin.take().unwrap();
    let data = stdin.to_vec();
    let t_in = std::thread::spawn(move || {
        let _ = si.write_all(&data);
        drop(si);
    });
    let so = child.stdout.take();
    let mut se = child.stderr.take().unwrap();
    let t_out = std::thread::spawn(move || {
        let mut v = Vec::new();
        if let Some(mut so) = so {
            let _ = so.read_to_end(&mut v);
        }
        v
    });
    let t_err = std::thread::spawn(move || {
        let mut v = Vec::new();
        let _ = se.read_to_end(&mut v);
        v
    });
    let t0 = Instant::now();
    let mut timed_out = false;
    let status = loop {
        match child.try_wait() {
            Ok(Some(s)) => break Some(s),
            Ok(None) => {}
            Err(_) => break None,
        }
        if t0.elapsed() > Duration::from_secs(timeout_s) {
            timed_out = true;
            let _ = child.kill();
            break child.wait().ok();
        }
        std::thread::sleep(Duration::from_millis(2));
    };
    let _ = t_in.join();
    let stdout = t_out.join().unwrap_or_default();
    let stderr = t_err.join().unwrap_or_default();
    use std::os::unix::process::ExitStatusExt;
    BinOut {
        status: status.and_then(|s| s.code()),
        signal: status.and_then(|s| s.signal()),
        timed_out,
        stdout,
        stderr,
    }
}
