//! C03 — expressions group according to the documented precedence and associativity.
//! Every tree shape is rendered twice — fully parenthesised, and with only the parentheses that
//! docs/language/expression-precedence.md requires. Deciding oracle (differential): both texts give
//! the same result on the real pipeline for every leaf assignment. Structural oracle: the real
//! parser's own fully parenthesised rendering of the minimal text equals the intended tree.

use crate::fw::*;
use crate::subject::*;
use serde_json::{json, Value};

/// binary operators with their documented precedence level (higher binds tighter)
pub const BIN: &[(&str, u8)] = &[
    ("*", 10), ("/", 10), ("%", 10), ("+", 9), ("-", 9), ("<<", 8), (">>", 8), ("&", 7), ("^", 6), ("|", 5), ("==", 4),
    ("!=", 4), ("<", 4), (">", 4), ("<=", 4), (">=", 4), ("&&", 3), ("||", 2),
];
const UN: &[&str] = &["!", "-", "~"];
const P_UNARY: u8 = 11;
const P_POSTFIX: u8 = 12;
const P_ASSIGN: u8 = 1;

#[derive(Clone, Debug)]
enum T {
    Leaf(usize),
    Bin(usize, Box<T>, Box<T>),
    Un(usize, Box<T>),
    /// va[e]
    Idx(Box<T>, Box<T>),
    /// base(e)
    Call(Box<T>, Box<T>),
    /// named special leaves: array `va`, function `fi`, function returning an array `fa`, array of functions `af`
    Name(&'static str),
    /// target = value (target is a leaf variable or va[e])
    Assign(Box<T>, Box<T>),
}

const LEAVES: &[&str] = &["a", "b", "c", "d"];

fn prec(t: &T) -> u8 {
    match t {
        T::Leaf(_) | T::Name(_) => 13,
        T::Idx(..) | T::Call(..) => P_POSTFIX,
        T::Un(..) => P_UNARY,
        T::Bin(o, ..) => BIN[*o].1,
        T::Assign(..) => P_ASSIGN,
    }
}

fn full(t: &T) -> String {
    match t {
        T::Leaf(i) => LEAVES[*i].to_string(),
        T::Name(n) => n.to_string(),
        T::Bin(o, l, r) => format!("({} {} {})", full(l), BIN[*o].0, full(r)),
        T::Un(o, e) => format!("({}{})", UN[*o], full(e)),
        T::Idx(b, i) => format!("({}[{}])", full(b), full(i)),
        T::Call(f, a) => format!("({}({}))", full(f), full(a)),
        // an assignment target cannot be parenthesised in the language ("(a) = b" is rejected)
        T::Assign(l, r) => match l.as_ref() {
            T::Idx(b, i) => format!("({}[{}] = {})", full(b), full(i), full(r)),
            _ => format!("({} = {})", full(l), full(r)),
        },
    }
}

/// only the parentheses the documented table requires (left-to-right for equal precedence,
/// right-to-left for assignment)
fn minimal(t: &T) -> String {
    match t {
        T::Leaf(i) => LEAVES[*i].to_string(),
        T::Name(n) => n.to_string(),
        T::Bin(o, l, r) => {
            let p = BIN[*o].1;
            let ls = if prec(l) < p { format!("({})", minimal(l)) } else { minimal(l) };
            let rs = if prec(r) <= p { format!("({})", minimal(r)) } else { minimal(r) };
            format!("{} {} {}", ls, BIN[*o].0, rs)
        }
        T::Un(o, e) => {
            let es = if prec(e) < P_UNARY { format!("({})", minimal(e)) } else { minimal(e) };
            // "- -a" must not be scanned as something else; a space keeps two signs apart
            let sep = if matches!(**e, T::Un(..)) { " " } else { "" };
            format!("{}{}{}", UN[*o], sep, es)
        }
        T::Idx(b, i) => {
            let bs = if prec(b) < P_POSTFIX { format!("({})", minimal(b)) } else { minimal(b) };
            format!("{}[{}]", bs, minimal(i))
        }
        T::Call(f, a) => {
            let fs = if prec(f) < P_POSTFIX { format!("({})", minimal(f)) } else { minimal(f) };
            format!("{}({})", fs, minimal(a))
        }
        T::Assign(l, r) => format!("{} = {}", minimal(l), minimal(r)),
    }
}

/// the parser's own Display format of the intended tree
fn parser_display(t: &T) -> String {
    match t {
        T::Leaf(i) => LEAVES[*i].to_string(),
        T::Name(n) => n.to_string(),
        T::Bin(o, l, r) => format!("({} {} {})", parser_display(l), BIN[*o].0, parser_display(r)),
        T::Un(o, e) => format!("({}{})", UN[*o], parser_display(e)),
        T::Idx(b, i) => format!("({}[{}])", parser_display(b), parser_display(i)),
        T::Call(f, a) => format!("{}({})", parser_display(f), parser_display(a)),
        T::Assign(l, r) => format!("({} = {})", parser_display(l), parser_display(r)),
    }
}

fn max_leaf(t: &T) -> usize {
    match t {
        T::Leaf(i) => *i,
        T::Name(_) => 0,
        T::Bin(_, l, r) | T::Idx(l, r) | T::Call(l, r) | T::Assign(l, r) => max_leaf(l).max(max_leaf(r)),
        T::Un(_, e) => max_leaf(e),
    }
}

fn leaf(i: usize) -> Box<T> {
    Box::new(T::Leaf(i))
}

/// all shapes explored (without leaf values); each uses leaves a.. in left-to-right order
fn shapes(tier: Tier) -> Vec<T> {
    let nb = BIN.len();
    let mut out = vec![];
    // two binary operators, both nestings
    for o1 in 0..nb {
        for o2 in 0..nb {
            out.push(T::Bin(o1, Box::new(T::Bin(o2, leaf(0), leaf(1))), leaf(2)));
            out.push(T::Bin(o1, leaf(0), Box::new(T::Bin(o2, leaf(1), leaf(2)))));
        }
    }
    // prefix operators against every binary operator, on either operand and around the whole
    for u in 0..UN.len() {
        for o in 0..nb {
            out.push(T::Bin(o, Box::new(T::Un(u, leaf(0))), leaf(1)));
            out.push(T::Bin(o, leaf(0), Box::new(T::Un(u, leaf(1)))));
            out.push(T::Un(u, Box::new(T::Bin(o, leaf(0), leaf(1)))));
        }
        for u2 in 0..UN.len() {
            out.push(T::Un(u, Box::new(T::Un(u2, leaf(0)))));
        }
        // prefix vs postfix
        out.push(T::Un(u, Box::new(T::Idx(Box::new(T::Name("va")), leaf(0)))));
        out.push(T::Idx(Box::new(T::Name("va")), Box::new(T::Un(u, leaf(0)))));
        out.push(T::Un(u, Box::new(T::Call(Box::new(T::Name("fi")), leaf(0)))));
        out.push(T::Call(Box::new(T::Name("fi")), Box::new(T::Un(u, leaf(0)))));
    }
    // postfix against every binary operator
    for o in 0..nb {
        out.push(T::Bin(o, Box::new(T::Idx(Box::new(T::Name("va")), leaf(0))), leaf(1)));
        out.push(T::Bin(o, leaf(0), Box::new(T::Idx(Box::new(T::Name("va")), leaf(1)))));
        out.push(T::Idx(Box::new(T::Name("va")), Box::new(T::Bin(o, leaf(0), leaf(1)))));
        out.push(T::Bin(o, Box::new(T::Call(Box::new(T::Name("fi")), leaf(0))), leaf(1)));
        out.push(T::Bin(o, leaf(0), Box::new(T::Call(Box::new(T::Name("fi")), leaf(1)))));
        out.push(T::Call(Box::new(T::Name("fi")), Box::new(T::Bin(o, leaf(0), leaf(1)))));
        // assignment against every binary operator and chained
        out.push(T::Assign(leaf(0), Box::new(T::Bin(o, leaf(1), leaf(2)))));
        out.push(T::Assign(leaf(0), Box::new(T::Assign(leaf(1), Box::new(T::Bin(o, leaf(2), leaf(3)))))));
        out.push(T::Assign(Box::new(T::Idx(Box::new(T::Name("va")), leaf(0))), Box::new(T::Bin(o, leaf(1), leaf(2)))));
    }
    // assignment whose right-hand side starts with a prefix operator, a parenthesised group or a postfix
    // expression and continues with a binary operator (the value stored must be the whole right-hand side)
    for o in 0..nb {
        for u in 0..UN.len() {
            out.push(T::Assign(leaf(0), Box::new(T::Bin(o, Box::new(T::Un(u, leaf(1))), leaf(2)))));
        }
        for o2 in 0..nb {
            out.push(T::Assign(leaf(0), Box::new(T::Bin(o, Box::new(T::Bin(o2, leaf(1), leaf(2))), leaf(3)))));
            out.push(T::Assign(leaf(0), Box::new(T::Bin(o, leaf(1), Box::new(T::Bin(o2, leaf(2), leaf(3)))))));
        }
        out.push(T::Assign(leaf(0), Box::new(T::Bin(o, Box::new(T::Idx(Box::new(T::Name("va")), leaf(1))), leaf(2)))));
        out.push(T::Assign(leaf(0), Box::new(T::Bin(o, Box::new(T::Call(Box::new(T::Name("fi")), leaf(1))), leaf(2)))));
        out.push(T::Assign(leaf(0), Box::new(T::Assign(leaf(1), Box::new(T::Bin(o, Box::new(T::Un(1, leaf(2))), leaf(3)))))));
    }
    // chains of postfix operators
    out.push(T::Idx(Box::new(T::Call(Box::new(T::Name("fa")), leaf(0))), leaf(1)));
    out.push(T::Call(Box::new(T::Idx(Box::new(T::Name("af")), leaf(0))), leaf(1)));
    out.push(T::Assign(leaf(0), Box::new(T::Assign(leaf(1), leaf(2)))));
    out.push(T::Assign(Box::new(T::Idx(Box::new(T::Name("va")), leaf(0))), Box::new(T::Assign(leaf(1), leaf(2)))));
    // three binary operators: all five shapes
    let trip: Vec<usize> = if tier == Tier::Thorough { (0..nb).collect() } else { vec![0, 3, 5, 7, 9, 10, 16, 17] };
    for &o1 in &trip {
        for &o2 in &trip {
            for &o3 in &trip {
                let (a, b, c, d) = (leaf(0), leaf(1), leaf(2), leaf(3));
                out.push(T::Bin(o3, Box::new(T::Bin(o2, Box::new(T::Bin(o1, a.clone(), b.clone())), c.clone())), d.clone()));
                out.push(T::Bin(o3, Box::new(T::Bin(o1, a.clone(), Box::new(T::Bin(o2, b.clone(), c.clone())))), d.clone()));
                out.push(T::Bin(o2, Box::new(T::Bin(o1, a.clone(), b.clone())), Box::new(T::Bin(o3, c.clone(), d.clone()))));
                out.push(T::Bin(o1, a.clone(), Box::new(T::Bin(o3, Box::new(T::Bin(o2, b.clone(), c.clone())), d.clone()))));
                out.push(T::Bin(o1, a.clone(), Box::new(T::Bin(o2, b.clone(), Box::new(T::Bin(o3, c.clone(), d.clone()))))));
            }
        }
    }
    out
}

/// contexts (text before, text after) for the non-initial-state structural comparison
const CONTEXTS: &[(&str, &str)] = &[
    ("let r0 = match 9 { 1 => 1, _ => 0 }; ", ";"),
    ("let r0 = match 9 { 1 | 2 => 1, 3..5 => 2 }; ", ";"),
    ("match 9 { 1 => 0, _ => { ", " } };"),
    ("match 9 { 1 | 3 => { ", " } _ => 0 };"),
    ("match 9 { 1 => 0, _ => ", " };"),
    ("match ", " { _ => 0 };"),
    ("fn ctx() { ", " }"),
    ("if true { ", " }"),
    ("if ", " { 1 }"),
    ("while false { ", "; }"),
    ("let ar = [0, ", "];"),
    ("let mp = map {1: ", "};"),
    ("fi(", ");"),
    ("@ true { ", "; }"),
    ("@ ", " { 1; }"),
    ("@ end { 1; } ", ";"),
    ("@ 1 | 2 { 1; } ", ";"),
];

const LEAF_VALS: &[&str] = &["0", "1", "2", "3", "true", "false"];

pub struct P03 {
    shapes: Vec<T>,
    nassign: u64,
}
impl P03 {
    pub fn new(tier: Tier) -> P03 {
        P03 { shapes: shapes(tier), nassign: tier.pick(3u64.pow(4), 6u64.pow(4)) }
    }
}

fn prelude(vals: &[&str]) -> String {
    format!(
        "let a = {}; let b = {}; let c = {}; let d = {}; let va = [5, 6, 7, 8]; let fi = fn(x) {{ x + 1 }}; let fa = fn(x) {{ [x, x + 1, x + 2, x + 3] }}; let af = [fn(x) {{ x }}, fn(x) {{ x * 2 }}, fn(x) {{ x - 1 }}, fn(x) {{ 0 - x }}];\n",
        vals[0], vals[1], vals[2], vals[3]
    )
}

impl Property for P03 {
    fn id(&self) -> &'static str {
        "C03"
    }
    fn len(&self) -> u64 {
        self.shapes.len() as u64
    }
    fn describe(&self, idx: u64) -> Value {
        let t = &self.shapes[idx as usize];
        json!({"minimal": minimal(t), "full": full(t)})
    }
    fn run(&self, idx: u64) -> CaseOut {
        let t = &self.shapes[idx as usize];
        let (min_s, full_s) = (minimal(t), full(t));
        let class = match t {
            T::Bin(..) => "binary",
            T::Un(..) => "prefix",
            T::Idx(..) | T::Call(..) => "postfix",
            T::Assign(..) => "assignment",
            _ => "leaf",
        };
        // structural oracle
        let want = parser_display(t);
        for (name, text) in [("minimal", &min_s), ("full", &full_s)] {
            match guarded(|| {
                let (prog, errs) = parse_only(&format!("{};", text));
                (format!("{}", prog), errs)
            }) {
                Err(m) => return CaseOut::viol(format!("{} parser-panic", class), format!("parser panicked on {}: {}", text, m)),
                Ok((_, errs)) if !errs.is_empty() => {
                    return CaseOut::viol(format!("{} parse-error", class), format!("{} text `{}` does not parse: {:?}", name, text, errs))
                }
                Ok((got, _)) => {
                    if got != want {
                        return CaseOut::viol(
                            format!("{} grouping", class),
                            format!("the {} text `{}` is grouped by the parser as {} but the documented table gives {}", name, text, got, want),
                        );
                    }
                }
            }
        }
        // the same grouping from non-initial parser states: the minimal and the fully parenthesised text are embedded
        // in contexts that put the parser into (or leave it just after) its special modes — match patterns and arms,
        // filter patterns and actions, blocks, literals, arguments — and must be grouped identically there
        if !matches!(t, T::Assign(..)) {
            for (pre, post) in CONTEXTS {
                let show = |text: &str| {
                    let src = format!("{}{}{}", pre, text, post);
                    guarded(|| {
                        let (prog, errs) = parse_only(&src);
                        (format!("{}", prog), !errs.is_empty())
                    })
                };
                match (show(&min_s), show(&full_s)) {
                    (Err(m), _) | (_, Err(m)) => return CaseOut::viol(format!("{} parser-panic", class), format!("parser panicked on `{}{}{}`: {}", pre, min_s, post, m)),
                    (Ok((a, ea)), Ok((b, eb))) => {
                        if ea != eb || (!ea && a != b) {
                            return CaseOut::viol(
                                format!("{} grouping in context", class),
                                format!("in the context `{}□{}` the minimal text `{}` is parsed as {} (errors: {}) but the fully parenthesised `{}` as {} (errors: {})", pre, post, min_s, a, ea, full_s, b, eb),
                            );
                        }
                    }
                }
            }
        }
        // deciding differential oracle over all leaf assignments
        let k: u64 = if self.nassign == 81 { 3 } else { 6 };
        let mut runs = 0u64;
        let mut outcomes = std::collections::BTreeSet::new();
        let nleaves = max_leaf(t) + 1;
        for ai in 0..k.pow(nleaves as u32) {
            let mut v = unrank(ai, &vec![k; nleaves]);
            v.resize(4, 0);
            // quick tier: leaf values {1, 2, true}; thorough: all six
            let pick = |i: u64| if k == 3 { ["1", "2", "true"][i as usize] } else { LEAF_VALS[i as usize] };
            let vals = [pick(v[0]), pick(v[1]), pick(v[2]), pick(v[3])];
            let pre = prelude(&vals);
            // observe the result and the variables an assignment may have changed
            let a = guarded(|| run_src(&format!("{}let r = {}; [r, a, b, c, d, va]", pre, min_s)).outcome);
            let b = guarded(|| run_src(&format!("{}let r = {}; [r, a, b, c, d, va]", pre, full_s)).outcome);
            runs += 2;
            let norm = |o: &Result<Outcome, String>| match o {
                Ok(Outcome::Value(v)) => format!("value {}", v),
                Ok(Outcome::RtErr(..)) => "runtime-error".to_string(),
                Ok(o) => format!("{:?}", o),
                Err(m) => format!("panic {}", m),
            };
            let (na, nb) = (norm(&a), norm(&b));
            outcomes.insert(if na.starts_with("value") { "value" } else { "error" });
            if na != nb || na.starts_with("panic") {
                return CaseOut::viol(
                    format!("{} differs", class),
                    format!("with a,b,c,d = {:?}: minimal `{}` gives {} but fully parenthesised `{}` gives {}", vals, min_s, na, full_s, nb),
                )
                .with_counts(1, runs, runs);
            }
        }
        CaseOut::pass(format!("{} {}", class, outcomes.into_iter().collect::<Vec<_>>().join("+"))).with_counts(1, runs, runs)
    }
    fn rule(&self) -> String {
        "shapes: every ordered pair of the 18 binary operators in both nesting positions; every prefix operator against every binary operator (on either operand and around the result), against itself, against index and call; index and call against every binary operator; assignment against every binary operator, chained and with an index target; postfix chains; all five shapes of three binary operators (8-operator subset quick, all 18 thorough). Each shape is rendered minimally (only the parentheses the documented table requires) and fully parenthesised; both texts are run on the real pipeline for every leaf assignment (3^4 quick, 6^4 thorough) and must give the same value/error and the same side effects; additionally the real parser's own fully parenthesised rendering of both texts must equal the intended tree; and in each of {} contexts (after a match with and without an explicit default arm, inside arm bodies, as a scrutinee, condition, element, argument, filter pattern and filter action, after filters) the minimal and the fully parenthesised text must be grouped identically by the parser (non-assignment shapes)".replace("{}", &CONTEXTS.len().to_string())
    }
    fn bounds(&self) -> Value {
        json!({"shapes": self.shapes.len(), "leaf_assignments_per_shape": self.nassign})
    }
    fn assumptions(&self) -> Vec<String> {
        vec!["the harness's transcription of docs/language/expression-precedence.md (levels and associativity) is correct".into(),
             "expression trees deeper than three binary operators are not covered".into()]
    }
}
