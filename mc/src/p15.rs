//! C15 — reading packet fields never alters the bytes written back out.
//! For every structured frame truncated at every byte offset, a breadth-first search over the
//! read-access alphabet ($0..$11, every named layer property on every cached layer object, a scalar
//! and the payload of every layer) runs to a fixpoint over the lazily filled layer caches; in every
//! reachable cache state the serialised packet must equal the captured bytes.

use crate::code::prop::PacketPropType as P;
use crate::fw::*;
use crate::object::Object;
use crate::pkt::*;
use crate::subject::*;
use serde_json::{json, Value};
use std::collections::{BTreeSet, VecDeque};
use std::rc::Rc;

#[derive(Clone, Copy, Debug, PartialEq, Eq, PartialOrd, Ord)]
enum Op {
    Dollar(usize),
    /// (chain depth of the object, property)
    Named(usize, u8),
}

fn named_props() -> Vec<P> {
    vec![P::Eth, P::Vlan, P::Ipv4, P::Ipv6, P::Udp, P::Tcp, P::Payload, P::Src, P::SrcPort, P::EtherType, P::Caplen, P::Id]
}

pub fn base_frames() -> Vec<(String, Vec<u8>)> {
    let mut v = vec![];
    for link in [Link::Eth, Link::Vlan1, Link::Vlan2, Link::QinQ, Link::Unknown] {
        for net in (0..16u8).map(Net::V4).chain([Net::V6, Net::None]) {
            // transports: every TCP data offset only on the plain links to keep the product meaningful
            let mut trs: Vec<Trans> = vec![Trans::Udp, Trans::Other, Trans::Tcp(5)];
            if matches!(net, Net::V4(5) | Net::V4(6) | Net::V6) {
                trs.extend((0..16u8).map(Trans::Tcp));
                trs.push(Trans::V6in4);
            }
            if net == Net::None || link == Link::Unknown {
                trs = vec![Trans::Other];
            }
            // length fields (IPv4 total length, IPv6 payload length, UDP length) that agree with the capture, fall
            // short of it (padding / trailer after the announced end), are zero, or exceed it (snap-truncated)
            if matches!(link, Link::Eth | Link::Vlan1) && matches!(net, Net::V4(5) | Net::V4(6) | Net::V6) {
                for tr in [Trans::Udp, Trans::Tcp(5)] {
                    for variant in ["exact", "short", "zero", "long", "udp-short"] {
                        let mut f = build_frame(link, net, tr, 24);
                        let ip = if link == Link::Eth { 14 } else { 18 };
                        let (iphl, v4) = match net {
                            Net::V4(ihl) => ((ihl as usize) * 4, true),
                            _ => (40, false),
                        };
                        let l4 = ip + iphl;
                        let l4hl = if tr == Trans::Udp { 8 } else { 20 };
                        let end = f.len();
                        let pick = |exact: usize, short: usize| -> u16 {
                            (match variant {
                                "exact" | "udp-short" => exact,
                                "short" => short,
                                "zero" => 0,
                                _ => exact + 100,
                            }) as u16
                        };
                        if v4 {
                            let v = pick(end - ip, iphl + l4hl);
                            f[ip + 2..ip + 4].copy_from_slice(&v.to_be_bytes());
                        } else {
                            let v = pick(end - l4, l4hl);
                            f[ip + 4..ip + 6].copy_from_slice(&v.to_be_bytes());
                        }
                        if tr == Trans::Udp {
                            let v: u16 = if variant == "udp-short" { 12 } else { pick(end - l4, 8) };
                            f[l4 + 4..l4 + 6].copy_from_slice(&v.to_be_bytes());
                        }
                        v.push((format!("{:?}/{:?}/{:?}/+24/lengths-{}", link, net, tr, variant), f));
                    }
                }
            }
            // the complement pattern: every bit that is 0 in the frames above is 1 here (structural bytes kept)
            if matches!(link, Link::Eth | Link::Vlan1) && matches!(net, Net::V4(5) | Net::V4(6) | Net::V6) {
                for tr in [Trans::Udp, Trans::Tcp(5), Trans::Tcp(7)] {
                    let orig = build_frame(link, net, tr, 24);
                    let mut f: Vec<u8> = orig.iter().map(|b| !b).collect();
                    let ip = if link == Link::Eth { 14 } else { 18 };
                    let mut keep: Vec<usize> = vec![12, 13, ip]; // EtherType (or the 0x8100 tag), version/IHL
                    if link == Link::Vlan1 {
                        keep.extend([16, 17]);
                    }
                    let l4 = match net {
                        Net::V4(ihl) => {
                            keep.push(ip + 9);
                            ip + (ihl as usize) * 4
                        }
                        _ => {
                            keep.push(ip + 6);
                            ip + 40
                        }
                    };
                    for k in keep {
                        f[k] = orig[k];
                    }
                    // version nibble of IPv6 / data offset nibble of TCP stay, the other nibble is complemented
                    if net == Net::V6 {
                        f[ip] = (orig[ip] & 0xF0) | (!orig[ip] & 0x0F);
                    }
                    if let Trans::Tcp(_) = tr {
                        f[l4 + 12] = (orig[l4 + 12] & 0xF0) | (!orig[l4 + 12] & 0x0F);
                    }
                    v.push((format!("{:?}/{:?}/{:?}/+24/complement", link, net, tr), f));
                }
            }
            for tr in trs {
                for payload in [0usize, 1, 24] {
                    if payload == 1 && !(matches!(net, Net::V4(5)) || net == Net::V6) {
                        continue;
                    }
                    v.push((format!("{:?}/{:?}/{:?}/+{}", link, net, tr, payload), build_frame(link, net, tr, payload)));
                }
            }
        }
    }
    v
}

pub struct P15 {
    frames: Vec<(String, Vec<u8>)>,
    /// (frame index, truncation length)
    cases: Vec<(u32, u32)>,
}
impl P15 {
    pub fn new(tier: Tier) -> P15 {
        let frames = base_frames();
        let mut cases = vec![];
        for (i, (name, f)) in frames.iter().enumerate() {
            // thorough: every offset of every frame. quick: every offset of a core set (plain / single-VLAN link,
            // IHL 0/5/6/15 or IPv6, no payload), every 4th offset and the full length of the other frames
            let core = (name.starts_with("Eth/") || name.starts_with("Vlan1/"))
                && ["/V4(0)/", "/V4(5)/", "/V4(6)/", "/V4(15)/", "/V6/"].iter().any(|n| name.contains(n))
                && name.ends_with("+0");
            for l in 0..=f.len() {
                if tier == Tier::Thorough || core || l % 4 == 1 || l == f.len() {
                    cases.push((i as u32, l as u32));
                }
            }
        }
        P15 { frames, cases }
    }
}

/// apply one read access; returns false if the access is not enabled in this state
fn apply(vm: &crate::vm::interpreter::VM, pkt: &Rc<Object>, op: Op) -> Result<bool, String> {
    match op {
        Op::Dollar(n) => {
            let _ = vm.get_inner(pkt, n, 1);
            Ok(true)
        }
        Op::Named(d, prop) => match cached_at(pkt, d) {
            None => Ok(false),
            Some(o) => {
                if matches!(o.as_ref(), Object::Err(_) | Object::Null) {
                    return Ok(false);
                }
                let _ = vm.exec_prop_expr(o, prop, None, 1);
                Ok(true)
            }
        },
    }
}

impl Property for P15 {
    fn id(&self) -> &'static str {
        "C15"
    }
    fn len(&self) -> u64 {
        self.cases.len() as u64
    }
    fn describe(&self, idx: u64) -> Value {
        let (fi, l) = self.cases[idx as usize];
        let (name, f) = &self.frames[fi as usize];
        json!({"frame": name, "captured_bytes": l, "of": f.len(), "hex": f[..l as usize].iter().map(|b| format!("{:02x}", b)).collect::<String>()})
    }
    fn run(&self, idx: u64) -> CaseOut {
        let (fi, l) = self.cases[idx as usize];
        let (name, full) = &self.frames[fi as usize];
        let bytes = full[..l as usize].to_vec();
        let dir = scratch_dir("c15");
        let parts: Vec<&str> = name.split('/').collect();
        let fam = |s: &str| s.split('(').next().unwrap_or(s).to_string();
        let class_base = format!("{}/{}/{}", parts[0], fam(parts[1]), fam(parts[2]));
        let mut ops: Vec<Op> = (0..=11).map(Op::Dollar).collect();
        for d in 0..6 {
            for p in named_props() {
                ops.push(Op::Named(d, p as u8));
            }
        }
        let r = guarded(|| -> Result<(u64, u64, BTreeSet<String>), String> {
            let vm = empty_vm();
            // expected serialisation: record header + captured bytes
            // fresh packets come from the real parser, 128 copies of the frame per scratch file
            let pool: std::cell::RefCell<Vec<Rc<crate::builtins::pcap::PcapPacket>>> = std::cell::RefCell::new(vec![]);
            let fresh = || -> (Rc<crate::builtins::pcap::PcapPacket>, Rc<Object>) {
                if pool.borrow().is_empty() {
                    *pool.borrow_mut() = load_frames(&dir, "f", &vec![bytes.clone(); 128]);
                }
                let p = pool.borrow_mut().pop().unwrap();
                let o = Rc::new(Object::Packet(p.clone()));
                (p, o)
            };
            let (p0, _) = fresh();
            let expect = serialize(&p0);
            if expect[16..] != bytes[..] {
                return Err(format!("a packet that was never read serialises to {} bytes instead of the {} captured", expect.len() - 16, bytes.len()));
            }
            let mut seen: BTreeSet<Vec<&'static str>> = BTreeSet::new();
            let mut frontier: VecDeque<Vec<Op>> = VecDeque::new();
            seen.insert(vec![]);
            frontier.push_back(vec![]);
            let (mut states, mut transitions) = (1u64, 0u64);
            let mut chains = BTreeSet::new();
            while let Some(hist) = frontier.pop_front() {
                for op in &ops {
                    // fresh real packet, history replayed on the real code
                    let (p, o) = fresh();
                    let expect = serialize(&p); // untouched packet: record header + captured bytes (checked above)
                    for h in &hist {
                        apply(&vm, &o, *h)?;
                    }
                    if !apply(&vm, &o, *op)? {
                        continue;
                    }
                    transitions += 1;
                    let out = serialize(&p);
                    if out != expect {
                        let chain = cache_chain(&o);
                        let first_diff = out.iter().zip(expect.iter()).position(|(a, b)| a != b).unwrap_or(out.len().min(expect.len()));
                        return Err(format!(
                            "after the reads {:?}{:?} (cached layers {:?}) the packet serialises to {} bytes, captured {}; first difference at frame offset {}",
                            hist, op, chain, out.len() as i64 - 16, expect.len() - 16, first_diff as i64 - 16
                        ));
                    }
                    let chain = cache_chain(&o);
                    chains.insert(chain.join(">"));
                    if seen.insert(chain) {
                        states += 1;
                        let mut h2 = hist.clone();
                        h2.push(*op);
                        if h2.len() <= 6 {
                            frontier.push_back(h2);
                        }
                    }
                }
            }
            Ok((states, transitions, chains))
        });
        match r {
            Err(m) => CaseOut::viol(format!("{} panic", class_base), format!("{} cut at {}: panicked: {}", name, l, one_line(&m, 200))),
            Ok(Err(m)) => CaseOut::viol(format!("{} altered", class_base), format!("{} cut at {}: {}", name, l, m)),
            Ok(Ok((s, t, chains))) => {
                let deepest = chains.iter().map(|c| c.matches('>').count() + 1).max().unwrap_or(0);
                CaseOut::pass(format!("{} chains<={}", class_base, deepest)).with_counts(s, t, t)
            }
        }
    }
    fn rule(&self) -> String {
        format!("{} structured frames (link in Ethernet / 1 VLAN / 2 VLANs / QinQ 0x9100 / unknown EtherType x network in IPv4 with every IHL 0..15 / IPv6 / none x transport in UDP / other / TCP with every data offset 0..15 / IPv6-in-IPv4, payload 0/1/24 bytes, every byte carrying a position pattern), each truncated at every byte offset; per frame a breadth-first search over the read accesses $0..$11 and 12 properties (every layer selector, payload, a scalar of every layer) applied to every cached layer object, canonical state = chain of cached layer kinds, to a fixpoint; in every reachable state Vec<u8>::from(&PcapPacket) (the one conversion pcap_write, write and filter-mode output all use) must equal the record header plus the captured bytes", self.frames.len())
    }
    fn bounds(&self) -> Value {
        json!({"frames": self.frames.len(), "frame_x_truncation_cases": self.cases.len()})
    }
    fn assumptions(&self) -> Vec<String> {
        vec!["canonical state = chain of cached layer kinds: serialisation and every later read are functions of the immutable captured bytes and of that chain".into(),
             "frames with more than two VLAN tags or tunnels other than IPv6-in-IPv4 are not covered".into()]
    }
}
