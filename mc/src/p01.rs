//! C01 — scanning, parsing and compiling are total on every source text.
//!
//! Spaces (all walked completely): A character strings, B token sequences, C nesting towers,
//! D the one-edit neighbourhood of valid seed programs, E (end-to-end) "diagnostics ⇒ not executed".

use crate::fw::*;
use crate::subject::*;
use serde_json::{json, Value};

pub const SIGMA_C: &[&str] = &[
    "'", "\"", "b", "0", "1", "x", "o", "e", ".", "=", "<", "!", "&", "|", "/", "#", "_", "a", "ü", " ", "\n", "$",
    "@", ":", ";", ",", "(", ")", "[", "]", "{", "}", "-", "~", "\\", "\0",
    // one representative per character class a scanner predicate could confuse: non-ASCII decimal digit (Nd),
    // non-ASCII numeric non-digit (No), non-ASCII white space, astral character, tab, CR, upper-case radix/exponent
    // letters, sign characters, digits outside the binary/octal ranges, a hex letter, an unused ASCII punctuation
    "\u{663}", "\u{bd}", "\u{a0}", "\u{1d11e}", "\t", "\r", "E", "X", "B", "+", "*", "%", "^", ">", "?", "2", "9", "f",
];
/// the 20-character core used one length deeper
pub const SIGMA_C_CORE: &[&str] =
    &["'", "\"", "b", "0", "x", "e", ".", "=", "<", "!", "|", "/", "#", "_", "a", "\u{663}", "\n", "(", "{", "["];

pub const SIGMA_T: &[&str] = &[
    // keywords
    "let", "fn", "true", "false", "if", "else", "return", "null", "map", "loop", "while", "break", "continue",
    "match", "struct", "stdin", "end", "_",
    // operators
    "=", "+", "-", "*", "/", "%", "!", "&&", "||", "<", "<=", ">", ">=", "==", "!=", "=>", "&", "|", "^", "~", "<<",
    ">>",
    // delimiters
    ",", ":", ";", "(", ")", "[", "]", "{", "}",
    // special
    "$", "@", "..", "..=", ".src", ".x",
    // literals and names
    "1", "0x1", "0o7", "0b1", "1.5", "1e5", "\"s\"", "'c'", "b'c'", "x", "y",
    // a literal token whose text is empty
    "\"\"",
];
pub const SIGMA_T_CORE: &[&str] = &[
    "let", "fn", "if", "else", "match", "loop", "break", "x", "1", "0x1", "=", "-", "|", "..", "=>", ":", ";", ",",
    "(", ")", "{", "}", "[", "@",
];

const INLINE_SEEDS: &[&str] = &[
    "let a = 1; let b = a + 2 * 3; puts(a, b);",
    "fn add(a, b) { return a + b; } let r = add(1, 2); r",
    "let f = fn(x) { if x > 1 { x } else { 0 - x } }; f(3);",
    "let m = map {\"a\": 1, 2: [1, 2, 3]}; m[\"a\"] = m[2][0]; m",
    "let i = 0; while i < 3 { i = i + 1; if i == 2 { continue; } } i",
    "outer: loop { inner: loop { break outer; } }",
    "let x = 5; match x { 1 | 2 => { 1 } 3..5 => 2, 5..=9 => { 3 } _ => 4 }",
    "let c = 'a'; match c { 'a'..='z' => true, _ => false }",
    "let b = b'x'; let s = \"str\"; let z = 0x1F + 0o17 + 0b11 + 1.5e3;",
    "let adder = fn(a) { fn(b) { a + b } }; adder(1)(2)",
    "@ NP < 10 && ($1).type == 0x800 { ($2).ttl = 5; }  @ end { println(\"{}\", NP); }",
    "@ ($1).ipv4.udp.srcport == 53",
    "let t = !true || ~1 & 3 ^ 4 | 5 << 2 >> 1; t % 2 != 0",
    "# comment\n// another\nlet q = [1, [2, 3], \"x\"][1][0]; q",
    "let e = if false { 1 } else if true { 2 } else { 3 }; e",
];

/// (name, text): operator / keyword chains of growing length with bracket depth <= 1, and the 64-level ladder
fn chains() -> Vec<(String, String)> {
    let mut v = vec![];
    for n in [10usize, 100, 400, 1000, 3000, 30000] {
        v.push((format!("binary + chain x{}", n), format!("let t = {}1;\nputs(t);", "1 + ".repeat(n))));
        v.push((format!("assignment chain x{}", n), format!("let a = 0;\na = {}1;", "a = ".repeat(n))));
        v.push((format!("prefix - chain x{}", n), format!("let x = {}1;", "-".repeat(n))));
        v.push((format!("else-if chain x{}", n), format!("let c = 0;\nif c == 1 {{ 1 }}{} else {{ 0 }}", " else if c == 2 { 2 }".repeat(n))));
        v.push((format!("match alternatives x{}", n), format!("match 5 {{ {} => 1, _ => 0 }}", (0..n).map(|i| i.to_string()).collect::<Vec<_>>().join(" | "))));
        v.push((format!("binary chain followed by a stray ')' x{}", n), format!("{}1)", "1 + ".repeat(n))));
    }
    for d in [8usize, 32, 50, 56, 64] {
        // strictly rising precedence inside every one of d nested blocks (the stated nesting bound is 64)
        let level = "a = 1 || 1 && 1 == 1 | 1 ^ 1 & 1 << 1 + 1 * -if true {";
        v.push((format!("rising-precedence ladder depth {}", d), format!("let a = 0;\n{}1{};\nputs(a);", level.repeat(d), "}".repeat(d))));
    }
    v
}

enum Sub {
    /// long operator / keyword chains and the rising-precedence ladder, through the binary (native stack)
    Chains,
    Chars { alpha: &'static [&'static str], n: u32, min_len: u32 },
    Toks { alpha: &'static [&'static str], n: u32, min_len: u32 },
    Nest,
    Edit { seeds: Vec<Vec<String>>, offs: Vec<u64> },
    E2E { n: u32 },
}

pub struct P01 {
    tier: Tier,
    subs: Vec<(String, Sub, u64)>,
    total: u64,
}

fn lex_seed(src: &str) -> Vec<String> {
    let cs: Vec<char> = src.chars().collect();
    let mut i = 0;
    let mut out = vec![];
    let two = ["==", "!=", "<=", ">=", "&&", "||", "=>", "<<", ">>", ".."];
    while i < cs.len() {
        let c = cs[i];
        if c.is_whitespace() {
            i += 1;
            continue;
        }
        if c == '#' || (c == '/' && i + 1 < cs.len() && cs[i + 1] == '/') {
            let s = i;
            while i < cs.len() && cs[i] != '\n' {
                i += 1;
            }
            let mut t: String = cs[s..i].iter().collect();
            t.push('\n');
            out.push(t);
            continue;
        }
        if c == '"' {
            let s = i;
            i += 1;
            while i < cs.len() && cs[i] != '"' {
                i += 1;
            }
            i = (i + 1).min(cs.len());
            out.push(cs[s..i].iter().collect());
            continue;
        }
        if c == '\'' && i + 2 < cs.len() && cs[i + 2] == '\'' {
            out.push(cs[i..i + 3].iter().collect());
            i += 3;
            continue;
        }
        if c == 'b' && i + 3 < cs.len() && cs[i + 1] == '\'' && cs[i + 3] == '\'' {
            out.push(cs[i..i + 4].iter().collect());
            i += 4;
            continue;
        }
        if c.is_alphabetic() || c == '_' {
            let s = i;
            while i < cs.len() && (cs[i].is_alphanumeric() || cs[i] == '_') {
                i += 1;
            }
            out.push(cs[s..i].iter().collect());
            continue;
        }
        if c.is_ascii_digit() {
            let s = i;
            while i < cs.len()
                && (cs[i].is_alphanumeric() || (cs[i] == '.' && !(i + 1 < cs.len() && cs[i + 1] == '.')))
            {
                i += 1;
            }
            out.push(cs[s..i].iter().collect());
            continue;
        }
        if i + 2 < cs.len() && cs[i] == '.' && cs[i + 1] == '.' && cs[i + 2] == '=' {
            out.push("..=".into());
            i += 3;
            continue;
        }
        if i + 1 < cs.len() {
            let t: String = cs[i..i + 2].iter().collect();
            if two.contains(&t.as_str()) {
                out.push(t);
                i += 2;
                continue;
            }
        }
        if c == '.' && i + 1 < cs.len() && (cs[i + 1].is_alphabetic()) {
            // property access: keep ".name" together
            let s = i;
            i += 1;
            while i < cs.len() && (cs[i].is_alphanumeric() || cs[i] == '_') {
                i += 1;
            }
            out.push(cs[s..i].iter().collect());
            continue;
        }
        out.push(c.to_string());
        i += 1;
    }
    out
}

fn collect_seeds(tier: Tier) -> Vec<Vec<String>> {
    let mut seeds: Vec<Vec<String>> = INLINE_SEEDS.iter().map(|s| lex_seed(s)).collect();
    // the repository's own example programs
    let mut files = vec![];
    fn walk(d: &std::path::Path, out: &mut Vec<std::path::PathBuf>) {
        if let Ok(rd) = std::fs::read_dir(d) {
            let mut es: Vec<_> = rd.flatten().map(|e| e.path()).collect();
            es.sort();
            for p in es {
                if p.is_dir() {
                    walk(&p, out);
                } else if p.extension().map(|e| e == "p2").unwrap_or(false) {
                    out.push(p);
                }
            }
        }
    }
    walk(&std::path::Path::new(crate::P2SH_REPO).join("examples"), &mut files);
    for f in files {
        if let Ok(s) = std::fs::read_to_string(&f) {
            let t = lex_seed(&s);
            let cap = tier.pick(120, 100000);
            if t.len() <= cap {
                seeds.push(t);
            }
        }
    }
    seeds
}

const NEST_KINDS: u64 = 13;
const NEST_ENDS: u64 = 4;
fn nest_case(i: u64) -> String {
    let v = unrank(i, &[NEST_ENDS, 64, NEST_KINDS]);
    let (ending, d, kind) = (v[0], v[1] as usize + 1, v[2]);
    let (pre, open, core, close): (&str, &str, &str, &str) = match kind {
        0 => ("", "(", "1", ")"),
        1 => ("", "[", "1", "]"),
        2 => ("", "{ ", "1;", " }"),
        3 => ("", "map {1: ", "2", "}"),
        4 => ("let f = ", "fn() { ", "1", " }"),
        5 => ("let x = 1; ", "if x { ", "1", " }"),
        6 => ("let x = 0; ", "if x { 1 } else ", "if x { 2 }", ""),
        7 => ("let x = 1; ", "match x { 1 => ", "2", " }"),
        8 => ("", "-", "1", ""),
        9 => ("", "!", "1", ""),
        10 => ("let f = fn(a) { a }; ", "f(", "1", ")"),
        11 => ("let a = [[0]]; ", "a[", "0", "]"),
        _ => ("let x = 0; ", "while x { ", "x", " }"),
    };
    let mut s = String::from(pre);
    for _ in 0..d {
        s.push_str(open);
    }
    s.push_str(core);
    match ending {
        0 => {
            for _ in 0..d {
                s.push_str(close);
            }
        }
        1 => {}
        2 => {
            for _ in 0..d / 2 {
                s.push_str(close);
            }
        }
        _ => {
            // one wrong closer first
            s.push_str(if close.trim() == ")" { "]" } else { ")" });
            for _ in 1..d {
                s.push_str(close);
            }
        }
    }
    s
}

impl P01 {
    pub fn new(tier: Tier) -> P01 {
        let mut subs: Vec<(String, Sub, u64)> = vec![];
        let kc = SIGMA_C.len() as u64;
        let kcc = SIGMA_C_CORE.len() as u64;
        let kt = SIGMA_T.len() as u64;
        let ktc = SIGMA_T_CORE.len() as u64;
        let (a_full, a_core) = tier.pick((3, 4), (4, 5));
        subs.push(("A".into(), Sub::Chars { alpha: SIGMA_C, n: a_full, min_len: 0 }, strings_upto(kc, a_full)));
        subs.push((
            "A-core".into(),
            Sub::Chars { alpha: SIGMA_C_CORE, n: a_core, min_len: a_core },
            kcc.pow(a_core),
        ));
        let (b_full, b_core) = tier.pick((3, 4), (4, 5));
        subs.push(("B".into(), Sub::Toks { alpha: SIGMA_T, n: b_full, min_len: 0 }, strings_upto(kt, b_full)));
        subs.push(("B-core".into(), Sub::Toks { alpha: SIGMA_T_CORE, n: b_core, min_len: b_core }, ktc.pow(b_core)));
        subs.push(("C".into(), Sub::Nest, NEST_KINDS * 64 * NEST_ENDS));
        let seeds = collect_seeds(tier);
        let mut offs = vec![0u64];
        for s in &seeds {
            let n = s.len() as u64;
            offs.push(offs.last().unwrap() + n + (n + 1) * kt + n * kt);
        }
        let dn = *offs.last().unwrap();
        subs.push(("D".into(), Sub::Edit { seeds, offs }, dn));
        if std::path::Path::new(&bin_path()).exists() {
            // process start-up costs ~15 ms here and does not scale with cores, so the quick tier
            // keeps the end-to-end space to every single token; thorough runs every pair as well
            let n = tier.pick(1, 2);
            subs.push(("E".into(), Sub::E2E { n }, strings_upto(kt, n)));
        }
        if std::path::Path::new(&bin_path()).exists() {
            subs.push(("F".into(), Sub::Chains, chains().len() as u64));
        }
        let total = subs.iter().map(|s| s.2).sum();
        P01 { tier, subs, total }
    }
    fn locate(&self, mut idx: u64) -> (&str, &Sub, u64) {
        for (n, s, l) in &self.subs {
            if idx < *l {
                return (n, s, idx);
            }
            idx -= l;
        }
        panic!("index out of range")
    }
    fn text(&self, idx: u64) -> (String, String) {
        let (name, sub, i) = self.locate(idx);
        let t = match sub {
            Sub::Chars { alpha, n, min_len } => {
                let k = alpha.len() as u64;
                let syms = if *min_len == *n {
                    let mut v = unrank(i, &vec![k; *n as usize]);
                    v.reverse();
                    v
                } else {
                    unrank_string(i, k, *n)
                };
                syms.iter().map(|&j| alpha[j as usize]).collect::<Vec<_>>().concat()
            }
            Sub::Toks { alpha, n, min_len } => {
                let k = alpha.len() as u64;
                let syms = if *min_len == *n {
                    let mut v = unrank(i, &vec![k; *n as usize]);
                    v.reverse();
                    v
                } else {
                    unrank_string(i, k, *n)
                };
                syms.iter().map(|&j| alpha[j as usize]).collect::<Vec<_>>().join(" ")
            }
            Sub::Nest => nest_case(i),
            Sub::Edit { seeds, offs } => {
                let si = offs.partition_point(|&o| o <= i) - 1;
                let seed = &seeds[si];
                let n = seed.len() as u64;
                let kt = SIGMA_T.len() as u64;
                let mut j = i - offs[si];
                let mut toks: Vec<String> = seed.clone();
                if j < n {
                    toks.remove(j as usize);
                } else {
                    j -= n;
                    if j < (n + 1) * kt {
                        toks.insert((j / kt) as usize, SIGMA_T[(j % kt) as usize].to_string());
                    } else {
                        j -= (n + 1) * kt;
                        toks[(j / kt) as usize] = SIGMA_T[(j % kt) as usize].to_string();
                    }
                }
                toks.join(" ")
            }
            Sub::Chains => chains()[i as usize].1.clone(),
            Sub::E2E { n } => {
                let k = SIGMA_T.len() as u64;
                let syms = unrank_string(i, k, *n);
                let tail = syms.iter().map(|&j| SIGMA_T[j as usize]).collect::<Vec<_>>().join(" ");
                format!("puts(\"EXECUTED\");\n{}", tail)
            }
        };
        (name.to_string(), t)
    }
}

impl Property for P01 {
    fn id(&self) -> &'static str {
        "C01"
    }
    fn len(&self) -> u64 {
        self.total
    }
    fn describe(&self, idx: u64) -> Value {
        let (space, t) = self.text(idx);
        json!({"space": space, "source": t})
    }
    fn run(&self, idx: u64) -> CaseOut {
        let (space, src) = self.text(idx);
        if space == "F" {
            // deep recursion in the recursive-descent front end runs on the native stack of the real binary
            let dir = scratch_dir("c01");
            let path = dir.join("chain.p2");
            std::fs::write(&path, &src).unwrap();
            let o = run_bin(&[path.to_str().unwrap()], b"", &[], 60);
            let err = o.err_s();
            let head: String = src.chars().take(60).collect();
            if o.crashed() {
                let native = matches!(o.signal, Some(6) | Some(11)) && err.contains("overflowed its stack");
                return CaseOut {
                    class: "F:native-stack-overflow".into(),
                    verdict: if native {
                        known_or_violation("C01", "native-stack-recursion", format!("the front end exhausted the native stack on a text of {} bytes starting {:?}", src.len(), head))
                    } else {
                        Verdict::Violation(format!("the binary crashed on a chain text starting {:?}: {}", head, one_line(&err, 200)))
                    },
                    states: 1,
                    transitions: 1,
                    traces: 1,
                };
            }
            return CaseOut::pass("F:chain handled");
        }
        if space == "E" {
            let dir = scratch_dir("c01");
            let path = dir.join("prog.p2");
            std::fs::write(&path, &src).unwrap();
            let o = run_bin(&[path.to_str().unwrap()], b"", &[], 10);
            let err = o.err_s();
            let diag = err.contains("parse errors") || err.contains("compile error");
            if o.crashed() {
                // an execution-time crash is C08's concern; only front-end crashes count here
                let in_front = matches!(guarded(|| matches!(front(&src), Front::Compiled(_))), Err(_));
                if in_front {
                    return CaseOut::viol("E:crash", format!("binary crashed in the front end: {}", one_line(&err, 200)));
                }
            }
            if diag && o.out_s().contains("EXECUTED") {
                return CaseOut::viol(
                    "E:executed-after-diagnostics",
                    format!("diagnostics were reported but the program ran: stderr={}", one_line(&err, 200)),
                );
            }
            let cls = if diag { "E:diagnostics,not-executed" } else { "E:ran" };
            return CaseOut::pass(cls);
        }
        let r = guarded(|| match front(&src) {
            Front::ParseErrors(_) => "parse-diagnostics",
            Front::CompileError(..) => "compile-error",
            Front::Compiled(_) => "compiled",
        });
        match r {
            Ok(c) => CaseOut::pass(format!("{}:{}", space, c)),
            Err(m) => CaseOut::viol(
                format!("{}:panic:{}", space, m.chars().filter(|c| !c.is_ascii_digit()).take(40).collect::<String>()),
                format!("front end panicked: {}", one_line(&m, 200)),
            ),
        }
    }
    fn horizon_secs(&self) -> u64 {
        5
    }
    fn rule(&self) -> String {
        "cases = A all character strings over a 54-char alphabet (one char per scanner branch) up to the length bound \
         + one length more over a 20-char core; B all token sequences over a 67-token alphabet up to the bound + one \
         more over a 24-token core; C 13 nesting constructs x depth 1..64 x 4 endings; D every single-token deletion, \
         insertion and substitution (from the 66 tokens) at every position of every seed program (repository examples + \
         inline seeds); E every token sequence of length <=2 appended to a printing script, run through the binary. \
         Each case runs the real Scanner+Parser+Compiler under catch_unwind in a watchdogged worker; class = (space, \
         outcome in {parse-diagnostics, compile-error, compiled, panic})"
            .into()
    }
    fn bounds(&self) -> Value {
        json!({"tier": self.tier.name(), "subspaces": self.subs.iter().map(|(n,_,l)| json!({"name": n, "size": l})).collect::<Vec<_>>(),
               "max_nesting": 64})
    }
    fn assumptions(&self) -> Vec<String> {
        vec![
            "source texts outside the enumerated alphabets/lengths are not covered; no random tail is sampled".into(),
            "non-termination is decided up to a 5 s per-case horizon (cases normally take microseconds)".into(),
            "E (not executed after diagnostics) is only run when the hooked binary has been built".into(),
        ]
    }
}
