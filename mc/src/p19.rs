//! C19 — pcap file reading and writing preserve records in order.
//! Per file: breadth-first search over call sequences of pcap_read_next / pcap_read_all(f[, n])
//! against a Vec<Record> + cursor model (canonical state = cursor), write + read-back, and — for a
//! three-record file — truncation at every byte offset and single-field header corruptions.

use crate::code::prop::PacketPropType as P;
use crate::fw::*;
use crate::object::Object;
use crate::pkt::*;
use crate::subject::*;
use serde_json::{json, Value};
use std::collections::{BTreeSet, VecDeque};
use std::rc::Rc;

const SIZES: &[usize] = &[0, 1, 60, 8176, 8192, 9000];

#[derive(Clone, Copy, Debug, PartialEq, Eq, PartialOrd, Ord)]
enum Op {
    Next,
    All,
    AllN(usize),
}

#[derive(Clone)]
enum Case {
    /// (record sizes, magic ns?, snaplen choice)
    File(Vec<usize>, bool, u8),
    Truncate(usize),
    Corrupt(usize),
}

fn make_recs(sizes: &[usize]) -> Vec<Rec> {
    sizes
        .iter()
        .enumerate()
        .map(|(i, n)| Rec { sec: 1_700_000_000 + i as u32 * 3, usec: 999_000 + i as u32, wirelen: *n as u32 + 4 + i as u32, data: (0..*n).map(|j| pat(j + 31 * i)).collect() })
        .collect()
}

fn snaplen_for(choice: u8, sizes: &[usize]) -> u32 {
    match choice {
        0 => sizes.iter().copied().max().unwrap_or(0) as u32,
        1 => 65535,
        _ => 262144,
    }
}

fn int(i: i64) -> Rc<Object> {
    Rc::new(Object::Integer(i))
}

/// canonical rendering of a packet object's record fields
fn packet_text(vm: &crate::vm::interpreter::VM, o: &Rc<Object>) -> String {
    match o.as_ref() {
        Object::Packet(_) => {
            let mut parts = vec![];
            for p in [P::Sec, P::USec, P::Caplen, P::Wirelen] {
                parts.push(match vm.exec_prop_expr(o.clone(), p as u8, None, 1) {
                    Ok(v) => canon(&v),
                    Err(e) => format!("err:{}", e.msg),
                });
            }
            let pl = match vm.exec_prop_expr(o.clone(), P::Payload as u8, None, 1) {
                Ok(v) => match v.as_ref() {
                    Object::Arr(a) => {
                        let b: Vec<u8> = a.elements.borrow().iter().map(|x| if let Object::Byte(b) = x.as_ref() { *b } else { 0 }).collect();
                        format!("{}:{:016x}", b.len(), fnv(&b))
                    }
                    other => canon(other),
                },
                Err(e) => format!("err:{}", e.msg),
            };
            format!("pkt({},{})", parts.join(","), pl)
        }
        Object::Null => "null".into(),
        Object::Err(_) => "error".into(),
        Object::Arr(a) => format!("[{}]", a.elements.borrow().iter().map(|x| packet_text(vm, x)).collect::<Vec<_>>().join(",")),
        other => canon(other),
    }
}
fn fnv(b: &[u8]) -> u64 {
    let mut h: u64 = 0xcbf29ce484222325;
    for x in b {
        h ^= *x as u64;
        h = h.wrapping_mul(0x100000001b3);
    }
    h
}
fn rec_text(r: &Rec) -> String {
    format!("pkt(i{},i{},i{},i{},{}:{:016x})", r.sec, r.usec, r.data.len(), r.wirelen, r.data.len(), fnv(&r.data))
}

fn apply(vm: &crate::vm::interpreter::VM, f: &Rc<Object>, op: Op) -> Result<String, String> {
    let r = match op {
        Op::Next => (builtin("pcap_read_next"))(vec![f.clone()]),
        Op::All => (builtin("pcap_read_all"))(vec![f.clone()]),
        Op::AllN(n) => (builtin("pcap_read_all"))(vec![f.clone(), int(n as i64)]),
    }?;
    Ok(packet_text(vm, &r))
}
fn model(recs: &[Rec], cur: &mut usize, op: Op) -> String {
    match op {
        Op::Next => {
            if *cur < recs.len() {
                *cur += 1;
                rec_text(&recs[*cur - 1])
            } else {
                "null".into()
            }
        }
        Op::All | Op::AllN(_) => {
            let n = match op {
                Op::AllN(n) => n.min(recs.len() - *cur),
                _ => recs.len() - *cur,
            };
            let out: Vec<String> = recs[*cur..*cur + n].iter().map(rec_text).collect();
            *cur += n;
            format!("[{}]", out.join(","))
        }
    }
}

pub struct P19 {
    cases: Vec<Case>,
    trunc_file: Vec<u8>,
    trunc_recs: Vec<Rec>,
}
impl P19 {
    pub fn new(tier: Tier) -> P19 {
        let kmax = tier.pick(3, 5);
        let full_upto = tier.pick(2, 4);
        let mut cases = vec![];
        let mut tuples: Vec<Vec<usize>> = vec![vec![]];
        let mut cur: Vec<Vec<usize>> = vec![vec![]];
        for _ in 0..kmax {
            let mut next = vec![];
            for t in &cur {
                for s in SIZES {
                    let mut t2 = t.clone();
                    t2.push(*s);
                    next.push(t2);
                }
            }
            tuples.extend(next.iter().cloned());
            cur = next;
        }
        for t in tuples {
            for ns in [false, true] {
                for sl in 0..3u8 {
                    // the full magic x snaplen product for short files, one combination per longer tuple
                    if t.len() <= full_upto || (ns as u8 + sl) as usize % 3 == t.iter().sum::<usize>() % 3 {
                        cases.push(Case::File(t.clone(), ns, sl));
                    }
                }
            }
        }
        // records longer than the default snap length of a newly written file (65535)
        cases.push(Case::File(vec![3, 70000, 2], true, 2));
        cases.push(Case::File(vec![70000], false, 0));
        cases.push(Case::File(vec![65535, 65536], false, 2));
        let trunc_recs = make_recs(&[1, 60, 20]);
        let trunc_file = pcap_bytes(MAGIC_US, 65535, 1, &trunc_recs);
        for cut in 0..trunc_file.len() {
            cases.push(Case::Truncate(cut));
        }
        for c in 0..40 {
            cases.push(Case::Corrupt(c));
        }
        P19 { cases, trunc_file, trunc_recs }
    }
}

/// read everything with alternating calls; returns the texts of the records delivered and the final result
fn drain(vm: &crate::vm::interpreter::VM, f: &Rc<Object>, use_all: bool) -> Result<(Vec<String>, String), String> {
    let mut got = vec![];
    let mut end = String::from("more");
    if use_all {
        let r = (builtin("pcap_read_all"))(vec![f.clone()])?;
        match r.as_ref() {
            Object::Arr(a) => {
                for x in a.elements.borrow().iter() {
                    got.push(packet_text(vm, x));
                }
                end = "end".into();
            }
            Object::Err(_) => end = "error".into(),
            o => end = canon(o),
        }
    } else {
        for _ in 0..10 {
            let r = (builtin("pcap_read_next"))(vec![f.clone()])?;
            match r.as_ref() {
                Object::Packet(_) => got.push(packet_text(vm, &r)),
                Object::Null => {
                    end = "null".into();
                    break;
                }
                Object::Err(_) => {
                    end = "error".into();
                    break;
                }
                o => {
                    end = canon(o);
                    break;
                }
            }
        }
    }
    // once the end (or the damage) was reported nothing more may be delivered
    for probe in ["pcap_read_next", "pcap_read_all", "pcap_read_next"] {
        let r = (builtin(probe))(vec![f.clone()])?;
        let more = match r.as_ref() {
            Object::Packet(_) => true,
            Object::Arr(a) => !a.elements.borrow().is_empty(),
            _ => false,
        };
        if more {
            return Ok((got, format!("a record delivered by {} after the end had been reported", probe)));
        }
    }
    Ok((got, end))
}

impl Property for P19 {
    fn id(&self) -> &'static str {
        "C19"
    }
    fn len(&self) -> u64 {
        self.cases.len() as u64
    }
    fn describe(&self, idx: u64) -> Value {
        match &self.cases[idx as usize] {
            Case::File(s, ns, sl) => json!({"file": {"record_sizes": s, "magic": if *ns { "ns" } else { "us" }, "snaplen": (["max record size", "65535", "262144"][*sl as usize])}}),
            Case::Truncate(c) => json!({"3-record file (sizes 1, 60, 20) cut at byte": c}),
            Case::Corrupt(c) => json!({"3-record file with header corruption #": c}),
        }
    }
    fn run(&self, idx: u64) -> CaseOut {
        let dir = scratch_dir("c19");
        let vm = empty_vm();
        let case = self.cases[idx as usize].clone();
        let r = guarded(|| -> Result<(String, u64, u64), String> {
            match case {
                Case::File(sizes, ns, sl) => {
                    let recs = make_recs(&sizes);
                    let k = recs.len();
                    let path = dir.join("in.pcap");
                    std::fs::write(&path, pcap_bytes(if ns { MAGIC_NS } else { MAGIC_US }, snaplen_for(sl, &sizes), 1, &recs)).unwrap();
                    let ops = vec![Op::Next, Op::All, Op::AllN(0), Op::AllN(1), Op::AllN(2), Op::AllN(k + 1)];
                    let mut seen: BTreeSet<usize> = BTreeSet::new();
                    let mut frontier: VecDeque<(Vec<Op>, usize)> = VecDeque::new();
                    seen.insert(0);
                    frontier.push_back((vec![], 0));
                    let (mut states, mut transitions) = (1u64, 0u64);
                    // futures of merged states are cross-checked: every (cursor, op) pair must give one result
                    let mut future: std::collections::BTreeMap<(usize, Op), String> = Default::default();
                    while let Some((hist, cur)) = frontier.pop_front() {
                        for op in &ops {
                            let f = open_pcap(&path)?;
                            if matches!(f.as_ref(), Object::Err(_)) {
                                return Err("a well-formed file is rejected by pcap_open".into());
                            }
                            let mut mcur = 0;
                            for h in &hist {
                                apply(&vm, &f, *h)?;
                                model(&recs, &mut mcur, *h);
                            }
                            let got = apply(&vm, &f, *op)?;
                            let want = model(&recs, &mut mcur, *op);
                            transitions += 1;
                            if got != want {
                                return Err(format!("after {:?}, {:?} returned {} but the file's records give {}", hist, op, one_line(&got, 300), one_line(&want, 300)));
                            }
                            if let Some(prev) = future.insert((cur, *op), got.clone()) {
                                if prev != got {
                                    return Err(format!("MACHINERY: two histories reaching cursor {} disagree on {:?}", cur, op));
                                }
                            }
                            if seen.insert(mcur) {
                                states += 1;
                                let mut h2 = hist.clone();
                                h2.push(*op);
                                frontier.push_back((h2, mcur));
                            }
                        }
                    }
                    // write every packet to a new file and read it back
                    let f = open_pcap(&path)?;
                    let all = (builtin("pcap_read_all"))(vec![f])?;
                    let out_path = dir.join("out.pcap");
                    let _ = std::fs::remove_file(&out_path);
                    {
                        let w = (builtin("pcap_open"))(vec![Rc::new(Object::Str(out_path.to_str().unwrap().into())), Rc::new(Object::Str("w".into()))])?;
                        if let Object::Arr(a) = all.as_ref() {
                            for p in a.elements.borrow().iter() {
                                let n = (builtin("pcap_write"))(vec![w.clone(), p.clone()])?;
                                if !matches!(n.as_ref(), Object::Integer(_)) {
                                    return Err(format!("pcap_write returned {}", canon(&n)));
                                }
                            }
                        }
                        // the writer is flushed when the last handle goes away
                    }
                    let back = open_pcap(&out_path)?;
                    let got = apply(&vm, &back, Op::All)?;
                    let mut c = 0;
                    let want = model(&recs, &mut c, Op::All);
                    transitions += 1;
                    if got != want {
                        return Err(format!("write + read-back: got {} instead of {}", one_line(&got, 300), one_line(&want, 300)));
                    }
                    Ok((format!("file k={}", k), states, transitions))
                }
                Case::Truncate(cut) => {
                    let path = dir.join("cut.pcap");
                    std::fs::write(&path, &self.trunc_file[..cut]).unwrap();
                    // number of records complete before the cut
                    let mut complete = 0;
                    let mut off = 24;
                    for r in &self.trunc_recs {
                        off += 16 + r.data.len();
                        if off <= cut {
                            complete += 1;
                        }
                    }
                    let want: Vec<String> = self.trunc_recs[..complete].iter().map(rec_text).collect();
                    let mut runs = 0;
                    for use_all in [false, true] {
                        let f = open_pcap(&path)?;
                        if matches!(f.as_ref(), Object::Err(_)) {
                            if cut >= 24 {
                                return Err(format!("cut at {}: pcap_open fails although the global header is complete", cut));
                            }
                            continue;
                        }
                        if cut < 24 {
                            return Err(format!("cut at {}: pcap_open succeeds on an incomplete global header", cut));
                        }
                        let (got, end) = drain(&vm, &f, use_all)?;
                        runs += 1;
                        // (an error object instead of the array is fine only when there is no record before the damage)
                        if got != want {
                            return Err(format!("cut at {} ({} complete records): {} delivered {} records: {:?}", cut, complete, if use_all { "pcap_read_all" } else { "pcap_read_next" }, got.len(), got));
                        }
                        if !(end == "null" || end == "error" || end == "end") {
                            return Err(format!("cut at {}: reading ended with {}", cut, end));
                        }
                    }
                    Ok((format!("truncated complete={}", complete), 1, runs))
                }
                Case::Corrupt(c) => {
                    let mut bytes = self.trunc_file.clone();
                    let rec_off = [24usize, 24 + 16 + 1, 24 + 16 + 1 + 16 + 60];
                    // (description, mutation, number of records that must still be delivered; None = open must fail)
                    let mut expect_open = true;
                    let mut complete = 3usize;
                    let what: String;
                    if c < 8 {
                        // every magic byte, two alterations each
                        let b = c / 2;
                        bytes[b] ^= if c % 2 == 0 { 0x01 } else { 0x80 };
                        // swapping to the other valid magic is not a corruption
                        let m = u32::from_le_bytes([bytes[0], bytes[1], bytes[2], bytes[3]]);
                        expect_open = m == MAGIC_US || m == MAGIC_NS;
                        what = format!("magic byte {} altered", b);
                    } else if c < 11 {
                        // snaplen smaller than record #c-8+1
                        let k = c - 8;
                        let snap = [0u32, 59, 1][k];
                        bytes[16..20].copy_from_slice(&snap.to_le_bytes());
                        complete = [0, 1, 1][k];
                        what = format!("snaplen {} (smaller than record {})", snap, complete + 1);
                    } else if c < 29 {
                        // caplen of record r set to an invalid value
                        let r = (c - 11) / 6;
                        let v = [65536u32, 1 << 26, (1 << 26) + 1, 1 << 31, u32::MAX, 100_000][(c - 11) % 6];
                        bytes[rec_off[r] + 8..rec_off[r] + 12].copy_from_slice(&v.to_le_bytes());
                        complete = r;
                        what = format!("caplen of record {} = {}", r + 1, v);
                    } else {
                        // caplen larger than the bytes that follow but below snaplen: the record is incomplete
                        let r = (c - 29) % 3;
                        let v = [200u32, 500, 9000, 65535][(c - 29) / 3 % 4];
                        bytes[rec_off[r] + 8..rec_off[r] + 12].copy_from_slice(&v.to_le_bytes());
                        complete = r;
                        what = format!("caplen of record {} = {} (more than the file holds)", r + 1, v);
                    }
                    let path = dir.join("bad.pcap");
                    std::fs::write(&path, &bytes).unwrap();
                    let want: Vec<String> = self.trunc_recs[..complete].iter().map(rec_text).collect();
                    let mut runs = 0;
                    for use_all in [false, true] {
                        let f = open_pcap(&path)?;
                        if matches!(f.as_ref(), Object::Err(_)) {
                            if expect_open {
                                return Err(format!("{}: pcap_open fails", what));
                            }
                            continue;
                        }
                        if !expect_open {
                            return Err(format!("{}: pcap_open accepts the file", what));
                        }
                        let (got, end) = drain(&vm, &f, use_all)?;
                        runs += 1;
                        if !(end == "null" || end == "error" || end == "end") {
                            return Err(format!("{}: reading ended with {}", what, end));
                        }
                        // the records before the damage, and nothing that is not in the file
                        if got.len() < want.len() || got[..want.len()] != want[..] {
                            return Err(format!("{}: delivered {:?} instead of the {} records before the damage", what, got, complete));
                        }
                        if got.len() > want.len() && c >= 8 && c < 29 {
                            return Err(format!("{}: a record with caplen above snaplen was delivered", what));
                        }
                    }
                    Ok(("corrupted".into(), 1, runs))
                }
            }
        });
        match r {
            Err(m) => CaseOut::viol("panic", format!("panicked: {}", one_line(&m, 300))),
            Ok(Err(m)) => {
                let cls = match &self.cases[idx as usize] {
                    Case::File(..) => "file",
                    Case::Truncate(_) => "truncate",
                    Case::Corrupt(_) => "corrupt",
                };
                CaseOut::viol(format!("wrong {}", cls), m)
            }
            Ok(Ok((class, s, t))) => CaseOut::pass(class).with_counts(s, t, t),
        }
    }
    fn rule(&self) -> String {
        format!("files: every tuple of <= 3 (thorough 5) record sizes from {:?} (around BufReader's 8 KiB buffer) x microsecond/nanosecond magic x snaplen (max record size, 65535, 262144), distinct timestamps and wire lengths per record; per file a breadth-first search over call sequences of pcap_read_next, pcap_read_all(f), pcap_read_all(f, 0|1|2|k+1) against a Vec<Record> + cursor model (canonical state = cursor; merged states' futures cross-checked), each transition replayed on a freshly opened handle, every returned packet compared field by field (sec, usec, caplen, wirelen, payload); then every packet written with pcap_write to a new file and read back; a three-record file cut at every byte offset and 40 single-field corruptions (every magic byte, snaplen below a record, invalid and oversized caplen values): exactly the records before the damage, then null or an error object, never a crash", SIZES)
    }
    fn bounds(&self) -> Value {
        json!({"cases": self.cases.len()})
    }
    fn assumptions(&self) -> Vec<String> {
        vec!["byte-swapped (big-endian) pcap files are outside the statement".into(),
             "pcap_read_all on a damaged file may answer with an error object instead of the records before the damage".into()]
    }
}
