//! C11 — pure builtins satisfy their documented contracts and round-trip laws.

use crate::compiler::Compiler;
use crate::fw::*;
use crate::refbuiltins::{self, PURE};
use crate::refval::*;
use crate::subject::*;
use crate::vm::interpreter::VM;
use serde_json::{json, Value};

fn kind_values() -> Vec<V> {
    vec![
        V::Null,
        V::Bool(true),
        V::Int(2),
        V::Float(1.5),
        V::Byte(65),
        V::Char('b'),
        V::Str("Ab".into()),
        arr(vec![V::Int(3), V::Int(1), V::Int(2)]),
        arr(vec![V::Char('x'), V::Char('y')]),
        arr(vec![V::Byte(0x41), V::Byte(0x42)]),
        arr(vec![]),
        map(vec![(V::Int(2), V::Int(20)), (V::Str("k".into()), V::Int(7))]),
        V::Clos(0),
        V::Builtin("len"),
        V::ErrObj,
    ]
}

/// evaluate `let r = NAME(args...); [r, a, b, c]` with the arguments injected as objects
pub fn eval_call(name: &str, args: &[V]) -> Result<(Outcome, usize), String> {
    guarded(|| {
        let (p1, _) = parse_only("let a = null; let b = null; let c = null;");
        let mut c1 = Compiler::new();
        c1.compile(p1).expect("prelude");
        let names = ["a", "b", "c"];
        let call = format!("let r = {}({}); [r, a, b, c]", name, names[..args.len()].join(", "));
        let (p2, e2) = parse_only(&call);
        assert!(e2.is_empty());
        let mut c2 = Compiler::new_with_state(c1.symtab.clone(), c1.constants.clone());
        c2.compile(p2).expect("call compiles");
        let mut vm = VM::new(c2.bytecode());
        for (i, a) in args.iter().enumerate() {
            vm.globals[i] = to_object(a);
        }
        match vm.run() {
            Ok(()) => (Outcome::Value(canon(&vm.last_popped())), 0),
            Err(e) => (Outcome::RtErr(e.msg.clone(), e.line), e.line),
        }
    })
    .map(|(o, l)| (o, l))
}

fn deep(v: &V) -> V {
    match v {
        V::Arr(a) => arr(a.borrow().iter().map(deep).collect()),
        V::Map(m) => map(m.borrow().iter().map(|(k, v)| (deep(k), deep(v))).collect()),
        _ => v.clone(),
    }
}

/// judge one call against the contract table
fn judge_call(name: &str, args: &[V]) -> (String, Verdict) {
    let refargs: Vec<V> = args.iter().map(deep).collect();
    let want = refbuiltins::call(name, &refargs);
    let got = eval_call(name, args);
    let shown = format!("{}({})", name, args.iter().map(|a| a.to_src()).collect::<Vec<_>>().join(", "));
    let names_builtin = |m: &str| m.starts_with(&format!("{}:", name));
    match (&got, &want) {
        (Err(m), _) => ("panic".into(), Verdict::Violation(format!("{} panicked: {}", shown, one_line(m, 160)))),
        (Ok((Outcome::RtErr(m, _), _)), R::Err) => {
            if names_builtin(m) {
                ("error".into(), Verdict::Pass)
            } else {
                ("error-unnamed".into(), Verdict::Violation(format!("{}: the runtime error '{}' does not name the builtin", shown, m)))
            }
        }
        (Ok((Outcome::Value(v), _)), R::Err) => (
            "missing-error".into(),
            Verdict::Violation(format!("{} returned {} but the arity/argument kinds are not documented: a runtime error naming the builtin is required", shown, v)),
        ),
        (Ok((Outcome::Value(g), _)), R::Ok(w)) => {
            // result and (possibly mutated) arguments
            let mut parts = vec![w.canon()];
            for i in 0..3 {
                parts.push(refargs.get(i).map(|a| a.canon()).unwrap_or_else(|| "null".into()));
            }
            let wantc = format!("[{}]", parts.join(","));
            if *g == wantc {
                ("value".into(), Verdict::Pass)
            } else {
                ("wrong-value".into(), Verdict::Violation(format!("{}: [result, args after the call] = {} but the documented contract gives {}", shown, g, wantc)))
            }
        }
        (Ok((Outcome::RtErr(m, _), _)), R::Ok(w)) => (
            "spurious-error".into(),
            Verdict::Violation(format!("{}: runtime error '{}' but the documented result is {}", shown, m, w.canon())),
        ),
        (Ok((o, _)), R::Unspecified(why)) => {
            if why.contains("documented kind") {
                match o {
                    Outcome::Value(_) => ("documented-kind-ok".into(), Verdict::Pass),
                    Outcome::RtErr(m, _) => (
                        "documented-kind-error".into(),
                        Verdict::Violation(format!("{}: runtime error '{}' although the argument kind is documented for this builtin", shown, m)),
                    ),
                    _ => ("front-end".into(), Verdict::Violation(format!("{}: {:?}", shown, o))),
                }
            } else {
                match o {
                    Outcome::RtErr(m, _) if !names_builtin(m) => {
                        ("error-unnamed".into(), Verdict::Violation(format!("{}: the runtime error '{}' does not name the builtin", shown, m)))
                    }
                    _ => ("unspecified".into(), Verdict::Skip(why)),
                }
            }
        }
        (Ok((o, _)), _) => ("front-end".into(), Verdict::Violation(format!("{}: unexpected {:?}", shown, o))),
    }
}

#[derive(Clone)]
enum Case {
    Kinds(usize, Vec<usize>),
    Bound(usize, Vec<V>),
    /// law name, program, expected canonical result
    Law(&'static str, String, String),
    Sort(Vec<V>),
    Decode(Vec<u8>),
    /// round(x, p) for every precision 0..=18
    Round(f64),
}

pub struct P11 {
    kinds: Vec<V>,
    cases: Vec<Case>,
}

fn strings_over(alpha: &[&str], n: usize) -> Vec<String> {
    let mut out = vec![String::new()];
    let mut cur = vec![String::new()];
    for _ in 0..n {
        let mut next = vec![];
        for s in &cur {
            for a in alpha {
                next.push(format!("{}{}", s, a));
            }
        }
        out.extend(next.iter().cloned());
        cur = next;
    }
    out
}

impl P11 {
    pub fn new(tier: Tier) -> P11 {
        let kinds = kind_values();
        let nk = kinds.len();
        let mut cases = vec![];
        for b in 0..PURE.len() {
            cases.push(Case::Kinds(b, vec![]));
            for i in 0..nk {
                cases.push(Case::Kinds(b, vec![i]));
                for j in 0..nk {
                    cases.push(Case::Kinds(b, vec![i, j]));
                    for k in 0..nk {
                        cases.push(Case::Kinds(b, vec![i, j, k]));
                    }
                }
            }
        }
        // documented signatures x boundary values
        let bv = crate::p08::boundary_values();
        for (b, name) in PURE.iter().enumerate() {
            for ar in refbuiltins::arities(name) {
                match ar {
                    1 => {
                        for v in &bv {
                            cases.push(Case::Bound(b, vec![v.clone()]));
                        }
                    }
                    2 => {
                        for v in &bv {
                            for w in &bv {
                                cases.push(Case::Bound(b, vec![v.clone(), w.clone()]));
                            }
                        }
                    }
                    _ => {
                        let small: Vec<&V> = bv.iter().step_by(5).collect();
                        for v in &small {
                            for w in &small {
                                for x in &small {
                                    cases.push(Case::Bound(b, vec![(*v).clone(), (*w).clone(), (*x).clone()]));
                                }
                            }
                        }
                    }
                }
            }
        }
        // laws
        let mut ints: Vec<i64> = (-4096..=4096).collect();
        ints.extend([i64::MIN, i64::MIN + 1, i64::MAX, i64::MAX - 1, 1 << 31, -(1 << 31), 1 << 53, (1 << 53) + 1, 1_000_000_007]);
        for n in ints {
            let lit = V::Int(n).to_src();
            cases.push(Case::Law("int(str(n)) == n", format!("let n = {}; [int(str(n)) == n, int(str(n))]", lit), format!("[true,i{}]", n)));
        }
        let mut floats: Vec<f64> = (-4096..=4096).map(|k| k as f64 / 8.0).collect();
        floats.extend([1e308, -1e308, 5e-324, 1e-300, 0.1, 1.0 / 3.0, 2.5e15, 9007199254740993.0, 1e19, -1e19, 123456.789]);
        if tier == Tier::Quick {
            floats = floats.into_iter().step_by(1).collect();
        }
        for x in floats {
            let lit = V::Float(x).to_src();
            cases.push(Case::Law("float(str(x)) == x", format!("let x = {}; float(str(x)) == x", lit), "true".into()));
        }
        // round: sixteenths (exact ties at every precision up to 4), values whose scaled form passes 2^52
        // (2^a + j/16 has fractional bits that scaling by 10^p pushes out), thirds and tenths
        let mut rounds: Vec<f64> = (-2048..=2048).map(|k| k as f64 / 16.0).collect();
        for a in 36..=52 {
            for j in 0..16 {
                rounds.push((1u64 << a) as f64 + j as f64 / 16.0);
                rounds.push(-((1u64 << a) as f64) - j as f64 / 16.0);
            }
        }
        for k in 1..=60 {
            rounds.push(10f64.powi(k % 16) / 3.0);
            rounds.push(k as f64 / 10.0 + 4.0);
            rounds.push(5.0 * 10f64.powi(k % 16) + 0.0625);
        }
        rounds.extend([4.6000000000000005, 500000000000000.0625, 400000000000000.0625, 4503599627370495.5, 1.115, 2.675, 1e300, -1e300, 5e-324, 0.1, 123456.789]);
        for x in rounds {
            cases.push(Case::Round(x));
        }
        let alpha = ["a", "é", "€", "𝄞", "\u{0}", " "];
        for s in strings_over(&alpha, 3) {
            // strings are injected through char() so that NUL and multi-byte characters need no literal syntax
            let build: String = if s.is_empty() { "\"\"".into() } else { format!("join([{}])", s.chars().map(|c| format!("char({})", c as u32)).collect::<Vec<_>>().join(", ")) };
            cases.push(Case::Law(
                "utf8/chars round trips",
                format!("let s = {}; [decode_utf8(encode_utf8(s)) == s, join(chars(s)) == s, len(encode_utf8(s)) == len(s), len(s)]", build),
                format!("[true,true,true,i{}]", s.len()),
            ));
        }
        let bytes = [0x00u8, 0x41, 0x80, 0xC3, 0xA9, 0xE2, 0xF0, 0xFF];
        for n in 0..=3usize {
            for i in 0..bytes.len().pow(n as u32) {
                let mut v = vec![];
                let mut x = i;
                for _ in 0..n {
                    v.push(bytes[x % bytes.len()]);
                    x /= bytes.len();
                }
                cases.push(Case::Decode(v));
            }
        }
        // sort: all arrays of length <= 5 over each mutually comparable domain
        let domains: Vec<Vec<V>> = vec![
            vec![V::Int(0), V::Int(1), V::Int(2)],
            vec![V::Float(-0.5), V::Float(0.0), V::Float(1.5)],
            vec![V::Str("".into()), V::Str("a".into()), V::Str("b".into())],
            vec![V::Char('a'), V::Char('b'), V::Char('é')],
            vec![V::Byte(0), V::Byte(128), V::Byte(255)],
            vec![V::Int(1), V::Float(1.5), V::Int(2), V::Float(-1.0)],
            // negative fractions next to the integers they truncate to and round to (an exact int/float comparison has
            // one case per sign of the fraction)
            vec![V::Int(-2), V::Float(-2.5), V::Int(-3), V::Float(-1.5), V::Int(0), V::Float(-0.5)],
            // integer limits and the neighbours of 2^53, where a conversion to double merges distinct integers
            vec![V::Int(i64::MIN), V::Int(-(1 << 53) - 1), V::Int(-(1 << 53)), V::Int(1 << 53), V::Int((1 << 53) + 1), V::Int(i64::MAX - 1), V::Int(i64::MAX)],
            vec![V::Float(f64::NEG_INFINITY), V::Float(-1e308), V::Float(-5e-324), V::Float(5e-324), V::Float(1e308), V::Float(f64::INFINITY)],
            vec![V::Int((1 << 53) + 1), V::Float(9007199254740992.0), V::Int((1 << 53) + 2), V::Float(-9007199254740994.0), V::Int(-(1 << 53) - 1)],
        ];
        for d in &domains {
            for n in 0..=(if d.len() <= 4 { 5usize } else { 4 }) {
                for i in 0..d.len().pow(n as u32) {
                    let mut v = vec![];
                    let mut x = i;
                    for _ in 0..n {
                        v.push(d[x % d.len()].clone());
                        x /= d.len();
                    }
                    cases.push(Case::Sort(v));
                }
            }
        }
        // long arrays (the standard sort switches algorithm beyond ~20 elements)
        for len in [21usize, 33, 64, 200] {
            cases.push(Case::Sort((0..len).map(|i| V::Int(((i * 7919) % 101) as i64 - 50)).collect()));
            cases.push(Case::Sort((0..len).map(|i| if i % 2 == 0 { V::Float(((i * 31) % 17) as f64 / 4.0) } else { V::Int((i % 5) as i64) }).collect()));
            // integers above 2^53 mixed with the doubles next to them (comparison as doubles is not transitive there)
            cases.push(Case::Sort((0..len).map(|i| if i % 3 == 0 { V::Float(9007199254740992.0 + (2 * (i % 3)) as f64) } else { V::Int((1i64 << 53) + ((i * 7) % 9) as i64 - 2) }).collect()));
            cases.push(Case::Sort((0..len).map(|i| if i % 4 == 1 { V::Float(9007199254740992.0 + (2 * (i % 4)) as f64) } else { V::Int((1i64 << 53) + (len - i) as i64 % 6) }).collect()));
        }
        P11 { kinds, cases }
    }
}

impl Property for P11 {
    fn id(&self) -> &'static str {
        "C11"
    }
    fn len(&self) -> u64 {
        self.cases.len() as u64
    }
    fn describe(&self, idx: u64) -> Value {
        match &self.cases[idx as usize] {
            Case::Kinds(b, ks) => json!({"call": format!("{}({})", PURE[*b], ks.iter().map(|k| self.kinds[*k].to_src()).collect::<Vec<_>>().join(", "))}),
            Case::Bound(b, vs) => json!({"call": format!("{}({})", PURE[*b], vs.iter().map(|v| v.to_src()).collect::<Vec<_>>().join(", "))}),
            Case::Law(n, p, w) => json!({"law": n, "program": p, "expected": w}),
            Case::Sort(v) => json!({"sort": arr(v.clone()).to_src()}),
            Case::Decode(b) => json!({"decode_utf8": b}),
            Case::Round(x) => json!({"round": format!("round({:?}, p) for p in 0..=18", x)}),
        }
    }
    fn run(&self, idx: u64) -> CaseOut {
        match &self.cases[idx as usize] {
            Case::Kinds(b, ks) => {
                let args: Vec<V> = ks.iter().map(|k| self.kinds[*k].clone()).collect();
                let (o, v) = judge_call(PURE[*b], &args);
                let first = args.first().map(|a| a.kind()).unwrap_or("-");
                CaseOut { class: format!("{}/{} first={} -> {}", PURE[*b], args.len(), first, o), verdict: v, states: 1, transitions: 1, traces: 1 }
            }
            Case::Bound(b, vs) => {
                let (o, v) = judge_call(PURE[*b], vs);
                let first = vs.first().map(|a| a.kind()).unwrap_or("-");
                CaseOut { class: format!("{}/{} first={} boundary -> {}", PURE[*b], vs.len(), first, o), verdict: v, states: 1, transitions: 1, traces: 1 }
            }
            Case::Law(name, prog, want) => match guarded(|| run_src(prog).outcome) {
                Err(m) => CaseOut::viol(format!("law {} panic", name), format!("{}: panicked: {}", prog, m)),
                Ok(Outcome::Value(v)) if v == *want => CaseOut::pass(format!("law {}", name)),
                Ok(o) => CaseOut::viol(format!("law {} broken", name), format!("`{}` gave {:?}, the law requires {}", prog, o, want)),
            },
            Case::Round(x) => {
                for p in 0..=18i64 {
                    let got = match eval_call("round", &[V::Float(*x), V::Int(p)]) {
                        Ok((Outcome::Value(g), _)) => g,
                        other => return CaseOut::viol("round fails", format!("round({:?}, {}) gave {:?}", x, p, other)),
                    };
                    let m = 10f64.powi(p as i32);
                    let scaled = x * m;
                    // the double nearest to the exact decimal expansion rounded at p digits; below 2^52 the
                    // documented computation round(x * 10^p) / 10^p is accepted as well (it differs at exact
                    // ties, half away from zero, and by the error of the scaling)
                    let mut accepted: Vec<f64> = vec![format!("{:.*}", p as usize, x).parse().unwrap()];
                    if scaled.is_finite() && scaled.abs() < 4503599627370496.0 {
                        accepted.push(scaled.round() / m);
                    }
                    if !accepted.iter().any(|a| got.starts_with(&format!("[{},", canon_f64(*a)))) {
                        return CaseOut::viol(
                            if scaled.abs() >= 4503599627370496.0 { "round beyond 2^52 wrong" } else { "round wrong" },
                            format!("round({:?}, {}) gave {}; {} digits after the point give {:?}", x, p, got, p, accepted),
                        );
                    }
                }
                CaseOut::pass("round law").with_counts(19, 19, 19)
            }
            Case::Decode(bytes) => {
                let a = arr(bytes.iter().map(|b| V::Byte(*b)).collect());
                let (o, v) = judge_call("decode_utf8", &[a]);
                CaseOut { class: format!("decode_utf8 bytes[{}] -> {}", bytes.len(), o), verdict: v, states: 1, transitions: 1, traces: 1 }
            }
            Case::Sort(v) => {
                let a = arr(v.clone());
                let class = format!("sort {}[{}]", v.first().map(|x| x.kind()).unwrap_or("empty"), if v.len() > 5 { "long".to_string() } else { v.len().to_string() });
                // the result must be a non-decreasing permutation of the input (checked independently of the reference sort)
                match eval_call("sort", &[a.clone()]) {
                    Err(m) => CaseOut::viol(format!("{} panic", class), format!("sort({}) panicked: {}", a.to_src(), m)),
                    Ok((Outcome::Value(g), _)) => {
                        let mut expect = v.clone();
                        // stable insertion sort under the C09 ordering
                        for i in 1..expect.len() {
                            let mut j = i;
                            while j > 0 && refbuiltins::cmp_vals(&expect[j - 1], &expect[j]) == Some(std::cmp::Ordering::Greater) {
                                expect.swap(j - 1, j);
                                j -= 1;
                            }
                        }
                        // any non-decreasing permutation is right: values that compare equal (an integer and the
                        // double it rounds to) may come out in either order
                        let fmt = |e: &Vec<V>| {
                            let s = arr(e.clone());
                            format!("[{},{},null,null]", s.canon(), s.canon())
                        };
                        let want = fmt(&expect);
                        let mut ok = g == want;
                        if !ok && v.len() <= 5 {
                            // enumerate the permutations of the input, keep the non-decreasing ones
                            let n = v.len();
                            let mut idx: Vec<usize> = (0..n).collect();
                            let mut c = vec![0usize; n];
                            let mut check = |p: &Vec<usize>| {
                                let cand: Vec<V> = p.iter().map(|i| v[*i].clone()).collect();
                                let sorted = cand.windows(2).all(|w| refbuiltins::cmp_vals(&w[0], &w[1]) != Some(std::cmp::Ordering::Greater));
                                sorted && fmt(&cand) == g
                            };
                            ok = check(&idx);
                            let mut i = 0;
                            while !ok && i < n {
                                // Heap's algorithm
                                if c[i] < i {
                                    if i % 2 == 0 { idx.swap(0, i) } else { idx.swap(c[i], i) }
                                    ok = check(&idx);
                                    c[i] += 1;
                                    i = 0;
                                } else {
                                    c[i] = 0;
                                    i += 1;
                                }
                            }
                        }
                        if !ok && v.len() > 5 {
                            // long arrays: besides the stable order under the doubles comparison, the stable order
                            // under the exact comparison of integers and floats (which refines it) is accepted
                            let exact = |x: &V, y: &V| -> Option<std::cmp::Ordering> {
                                let ex = |i: i64, f: f64| -> std::cmp::Ordering {
                                    if f >= 9223372036854775808.0 {
                                        std::cmp::Ordering::Less
                                    } else if f < -9223372036854775808.0 {
                                        std::cmp::Ordering::Greater
                                    } else {
                                        let t = f.trunc() as i64;
                                        i.cmp(&t).then(if f.fract() > 0.0 { std::cmp::Ordering::Less } else if f.fract() < 0.0 { std::cmp::Ordering::Greater } else { std::cmp::Ordering::Equal })
                                    }
                                };
                                match (x, y) {
                                    (V::Int(i), V::Float(f)) => Some(ex(*i, *f)),
                                    (V::Float(f), V::Int(i)) => Some(ex(*i, *f).reverse()),
                                    _ => refbuiltins::cmp_vals(x, y),
                                }
                            };
                            let mut e2 = v.clone();
                            for i in 1..e2.len() {
                                let mut j = i;
                                while j > 0 && exact(&e2[j - 1], &e2[j]) == Some(std::cmp::Ordering::Greater) {
                                    e2.swap(j - 1, j);
                                    j -= 1;
                                }
                            }
                            ok = fmt(&e2) == g;
                        }
                        if ok {
                            CaseOut::pass(class)
                        } else {
                            CaseOut::viol(format!("{} wrong", class), format!("sort({}) gave {} ; a non-decreasing permutation is {}", a.to_src(), g, want))
                        }
                    }
                    Ok((o, _)) => CaseOut::viol(format!("{} error", class), format!("sort({}) gave {:?}", a.to_src(), o)),
                }
            }
        }
    }
    fn rule(&self) -> String {
        format!("the {} pure builtins x arity 0..3 x every tuple of {} argument kinds (incl. three array flavours, map, closure, builtin, error object), called through the real VM with injected arguments; then every documented signature x boundary values (all singles and pairs of 69 values, a reduced cube for 3 arguments); laws over completely enumerated domains: int(str(n)) == n for |n| <= 4096 and integer limits, float(str(x)) == x for k/8 with |k| <= 4096 and extreme finite floats, the three UTF-8/chars round trips for all strings of length <= 3 over {{a, é, €, 𝄞, NUL, space}}, decode_utf8 on all byte arrays of length <= 3 over 8 bytes, round(x, p) for every p in 0..=18 and x over k/16 (|k| <= 2048), +-(2^a + j/16) for a in 36..=52, thirds, tenths and 5*10^k + 1/16 (result = the double nearest to the exact decimal expansion rounded at p digits; below 2^52 the documented round(x*10^p)/10^p is accepted as well), sort on all arrays of length <= 5 (<= 4 for the larger domains) over 10 mutually comparable domains (ints, floats, strings, chars, bytes, an int/float mix, negative fractions mixed with the integers on both sides of them, the integer limits with the neighbours of 2^53, extreme floats, large integers mixed with the doubles next to them) plus long arrays. Oracle: the contract table mc/src/refbuiltins.rs transcribed from docs/language/builtins.md (documented kinds => documented result and argument mutation; anything else => runtime error whose message starts with the builtin's name)", PURE.len(), self.kinds.len())
    }
    fn bounds(&self) -> Value {
        json!({"cases": self.cases.len(), "builtins": PURE.len(), "argument_kinds": self.kinds.len()})
    }
    fn assumptions(&self) -> Vec<String> {
        vec!["results the documentation does not pin (e.g. str of a float's exact text, char of a non-scalar integer, case conversion of non-ASCII text) are only required not to crash and, if they fail, to name the builtin".into(),
             "the contract table is a transcription of docs/language/builtins.md and the property statement".into()]
    }
}
