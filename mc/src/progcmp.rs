//! Differential execution of one generated program: RefEval vs the real pipeline.

use crate::ast::*;
use crate::fw::*;
use crate::refeval::*;
use crate::subject::*;
use crate::vm::interpreter::VM;

pub const FUEL: u64 = 20_000;

pub struct ImplRun {
    pub outcome: Outcome,
    /// canonical `obs` (global slot 0) after the run, if the program got as far as running
    pub obs: Option<String>,
}

/// Run `src` on the real pipeline; `obs` must be the first global defined by the program.
pub fn run_impl(src: &str) -> Result<ImplRun, String> {
    guarded(|| match front(src) {
        Front::ParseErrors(_) => ImplRun { outcome: Outcome::ParseErr, obs: None },
        Front::CompileError(..) => ImplRun { outcome: Outcome::CompileErr, obs: None },
        Front::Compiled(bc) => {
            let mut vm = VM::new(bc);
            init_vars(&vm);
            let outcome = match vm.run() {
                Ok(()) => Outcome::Value(canon(&vm.last_popped())),
                Err(e) => Outcome::RtErr(e.msg.clone(), e.line),
            };
            let obs = Some(canon(&vm.globals[0]));
            ImplRun { outcome, obs }
        }
    })
}

/// `let obs = [];` + body: the standard frame of a generated program
pub fn with_obs(body: Vec<S>) -> Vec<S> {
    let mut p = vec![S::Let("obs".into(), E::Arr(vec![]))];
    p.extend(body);
    p
}

/// Compare RefEval and the implementation on `prog`. `tag` prefixes the outcome class.
pub fn compare_program(tag: &str, prog: &[S]) -> CaseOut {
    let src = program_src(prog);
    let r = run_program(prog, FUEL);
    let refclass = match &r.outcome {
        RefOutcome::CompileErr(e) => format!("compile-error:{}", match e {
            StaticErr::Undefined(_) => "undefined-name",
            StaticErr::BreakOutsideLoop => "jump-outside-loop",
            StaticErr::UnknownLabel(_) => "unknown-label",
            StaticErr::ReturnOutsideFunction => "return-outside-function",
            StaticErr::MixedMatchArms => "mixed-match-arms",
            StaticErr::Unspecified(_) => "unspecified",
        }),
        RefOutcome::Value(v) => format!("value:{}", v.kind()),
        RefOutcome::RtErr => "runtime-error".into(),
        RefOutcome::Unspecified(_) => "unspecified".into(),
    };
    if let RefOutcome::Unspecified(w) = &r.outcome {
        // the statement does not say what this program does: it is not run against the oracle, but
        // programs that terminate in the reference must still not crash (checked under C08)
        return CaseOut::skip(format!("{} {}", tag, refclass), w);
    }
    let got = match run_impl(&src) {
        Ok(g) => g,
        Err(m) => {
            return CaseOut::viol(
                format!("{} {} -> panic", tag, refclass),
                format!("implementation panicked: {}\nprogram:\n{}", one_line(&m, 200), src),
            )
        }
    };
    let fail = |what: &str| -> CaseOut {
        CaseOut::viol(
            format!("{} {} -> {}", tag, refclass, what),
            format!(
                "{}\nprogram:\n{}\nreference: {:?} obs={:?}\nimplementation: {:?} obs={:?}",
                what, src, r.outcome, r.obs, got.outcome, got.obs
            ),
        )
    };
    match (&r.outcome, &got.outcome) {
        (RefOutcome::CompileErr(_), Outcome::CompileErr) => CaseOut::pass(format!("{} {}", tag, refclass)),
        (RefOutcome::CompileErr(_), Outcome::ParseErr) => fail("rejected by the parser instead of the compiler (harness renders only grammatical programs)"),
        (RefOutcome::CompileErr(_), _) => fail("accepted a program the compiler must reject"),
        (_, Outcome::CompileErr) => fail("compile error on a fault-free program"),
        (_, Outcome::ParseErr) => fail("parse error on a grammatical program"),
        (RefOutcome::Value(v), Outcome::Value(g)) => {
            if r.obs != got.obs {
                fail("different sequence of observed values")
            } else if v.canon() != *g {
                fail("different final value")
            } else {
                CaseOut::pass(format!("{} {}", tag, refclass))
            }
        }
        (RefOutcome::RtErr, Outcome::RtErr(..)) => {
            if r.obs != got.obs {
                fail("different observed values before the runtime error")
            } else {
                CaseOut::pass(format!("{} {}", tag, refclass))
            }
        }
        (RefOutcome::RtErr, Outcome::Value(_)) => fail("no runtime error although evaluation fails"),
        (RefOutcome::Value(_), Outcome::RtErr(..)) => fail("runtime error although evaluation succeeds"),
        (RefOutcome::Unspecified(_), _) => unreachable!(),
    }
}
