//! C08 — execution never crashes: failures surface as runtime errors.
//! Invariant-only oracle (no panic, no abort, no hang) over: every builtin x arity 0..3 x every tuple
//! of argument kinds; every builtin x boundary values; recursion/frame/locals grids; filter programs
//! run through a faithful in-process copy of main.rs's filter loop and through the binary.

use crate::builtins::functions::BUILTINFNS;
use crate::fw::*;
use crate::object::Object;
use crate::refval::*;
use crate::subject::*;
use crate::vm::interpreter::VM;
use serde_json::{json, Value};
use std::rc::Rc;

const NKINDS: u64 = 16;
const KIND_NAMES: &[&str] = &[
    "null", "bool", "int", "float", "byte", "char", "str", "array", "map", "closure", "builtin", "error", "reader", "writer", "pcap", "packet",
];

fn scratch() -> std::path::PathBuf {
    let d = scratch_dir("c08");
    let _ = std::env::set_current_dir(&d);
    d
}

fn kind_value(k: u64, dir: &std::path::Path) -> Rc<Object> {
    match k {
        0 => to_object(&V::Null),
        1 => to_object(&V::Bool(true)),
        2 => to_object(&V::Int(0)),
        3 => to_object(&V::Float(1.5)),
        4 => to_object(&V::Byte(65)),
        5 => to_object(&V::Char('a')),
        6 => to_object(&V::Str("r".into())),
        7 => to_object(&arr(vec![V::Int(1), V::Str("x".into())])),
        8 => to_object(&map(vec![(V::Int(1), V::Int(2))])),
        9 => to_object(&V::Clos(0)),
        10 => to_object(&V::Builtin("len")),
        11 => to_object(&V::ErrObj),
        12 => {
            let p = dir.join("reader.txt");
            std::fs::write(&p, b"line one\nline two\n").unwrap();
            (builtin("open"))(vec![Rc::new(Object::Str(p.to_str().unwrap().into()))]).unwrap()
        }
        13 => {
            let p = dir.join("writer.txt");
            (builtin("open"))(vec![Rc::new(Object::Str(p.to_str().unwrap().into())), Rc::new(Object::Str("w".into()))]).unwrap()
        }
        14 => {
            let p = dir.join("in.pcap");
            std::fs::write(&p, crate::p06::one_packet_pcap()).unwrap();
            (builtin("pcap_open"))(vec![Rc::new(Object::Str(p.to_str().unwrap().into()))]).unwrap()
        }
        _ => {
            let p = dir.join("in2.pcap");
            std::fs::write(&p, crate::p06::one_packet_pcap()).unwrap();
            let f = (builtin("pcap_open"))(vec![Rc::new(Object::Str(p.to_str().unwrap().into()))]).unwrap();
            (builtin("pcap_read_next"))(vec![f]).unwrap()
        }
    }
}

pub fn boundary_values() -> Vec<V> {
    let mut v = vec![];
    for i in [i64::MIN, -1, 0, 1, 2, 18, 19, 63, 64, 65, 100, 255, 256, 0xD800, 0x10FFFF, 0x110000, 1 << 31, (1 << 32) + 1, i64::MAX] {
        v.push(V::Int(i));
    }
    for f in [0.0, -0.0, 0.5, -1.5, 1e308, -1e308, f64::MAX, f64::MIN, 5e-324, 9007199254740993.0, f64::INFINITY, f64::NEG_INFINITY, f64::NAN, 4294967296.5, 1e19, -1e19] {
        v.push(V::Float(f));
    }
    for s in ["", "a", "-9223372036854775808", "9223372036854775808", "1e400", "nan", "é€𝄞", "x", "w", "r", "{}", "{", "}", "{:>5}", "{9}", "{:x}", "{18446744073709551615}", "{:{<5}", "/", "."] {
        v.push(V::Str(s.into()));
    }
    v.push(V::Char('\0'));
    v.push(V::Char('€'));
    v.push(V::Byte(0));
    v.push(V::Byte(255));
    v.push(arr(vec![]));
    v.push(arr(vec![V::Byte(0xC3)]));
    v.push(arr(vec![V::Byte(0xFF), V::Byte(0x41)]));
    v.push(arr(vec![V::Int(2), V::Float(1.5), V::Int(1)]));
    v.push(arr(vec![V::Int(1), V::Str("a".into()), V::Null, V::Float(f64::NAN)]));
    v.push(arr(vec![V::Char('a'), V::Char('b')]));
    v.push(map(vec![]));
    v.push(V::Null);
    v.push(V::Bool(false));
    // long arrays of mutually incomparable / partially ordered values (sort must not panic on them)
    v.push(arr((0..48).map(|i| match i % 4 { 0 => V::Int(48 - i), 1 => V::Str(format!("s{}", i)), 2 => V::Float(f64::NAN), _ => V::Null }).collect()));
    v.push(arr((0..64).map(|i| if i % 3 == 0 { V::Float(f64::NAN) } else { V::Float((64 - i) as f64) }).collect()));
    v
}

/// builtins that must not be called in-process: they end or block the process by design
fn excluded(name: &str, args: &[Rc<Object>]) -> Option<&'static str> {
    match name {
        "exit" => match args.first().map(|a| a.as_ref()) {
            Some(Object::Integer(_)) if args.len() == 1 => Some("exit(n) ends the process by design (checked through the binary)"),
            _ => None,
        },
        "sleep" => match args.first().map(|a| a.as_ref()) {
            Some(Object::Integer(n)) if args.len() == 1 && *n != 0 => Some("sleep(n != 0) blocks by design"),
            _ => None,
        },
        _ => None,
    }
}

fn recursion_programs() -> Vec<(String, String)> {
    let mut v = vec![];
    for arity in 0..=3usize {
        for extra in 0..=3usize {
            for depth in [4090i64, 4094, 4095, 4096, 4097, 100000] {
                let params: Vec<String> = (0..arity).map(|i| format!("p{}", i)).collect();
                let args: Vec<String> = (0..arity).map(|i| format!("p{}", i)).collect();
                let locals: String = (0..extra).map(|i| format!("let l{} = {}; ", i, i)).collect();
                let mut ps = vec!["n".to_string()];
                ps.extend(params);
                let mut as_ = vec!["n - 1".to_string()];
                as_.extend(args);
                let init: Vec<String> = std::iter::once(depth.to_string()).chain((0..arity).map(|i| i.to_string())).collect();
                v.push((
                    format!("direct arity={} locals={} depth={}", arity + 1, extra, depth),
                    format!("fn f({}) {{ {}if n > 0 {{ f({}) }} else {{ 0 }} }} f({});", ps.join(", "), locals, as_.join(", "), init.join(", ")),
                ));
            }
        }
    }
    // zero-argument unbounded recursion, mutual recursion, recursion through closures, non-tail recursion
    v.push(("zero-arg unbounded".into(), "fn f() { f() } f();".into()));
    v.push(("zero-arg unbounded with local".into(), "fn f() { let a = 1; f() } f();".into()));
    v.push(("mutual unbounded".into(), "fn a() { b() } fn b() { a() } a();".into()));
    v.push(("closure unbounded".into(), "let f = fn(x) { f(x + 1) }; f(0);".into()));
    v.push(("non-tail unbounded".into(), "fn f(n) { 1 + f(n + 1) } f(0);".into()));
    v.push(("nested closure unbounded".into(), "fn f(n) { let g = fn() { f(n + 1) }; g() } f(0);".into()));
    v.push(("deep array of pending operands".into(), "fn f(n) { [n, f(n + 1)] } f(0);".into()));
    // unbounded recursion x what the callee does first (incl. reading a local slot nobody has written yet) x how many
    // operands the callers keep pending (decides at which stack offset the frame array / operand stack runs out)
    for first in ["", "let a = a;", "let a = 1; a;", "p;", "[1, 2, 3];", "len([]);", "let a = a; let b = b; b;", "let a = p; a = a + 1;"] {
        for pend in 0..4usize {
            for nontail in [false, true] {
                let uses_p = first.contains('p');
                let call = if uses_p { "f(p)" } else { "f()" };
                let body_call = if nontail { format!("1 + {}", call) } else { call.to_string() };
                let start = format!("{}{}", "1 + ".repeat(pend), if uses_p { "f(0)" } else { "f()" });
                v.push((
                    format!("unbounded, callee starts with `{}`, {} pending, nontail={}", first, pend, nontail),
                    format!("fn f({}) {{ {} {} }} {};", if uses_p { "p" } else { "" }, first, body_call, start),
                ));
                v.push((
                    format!("unbounded through a second function, callee starts with `{}`, {} pending, nontail={}", first, pend, nontail),
                    format!("fn f({}) {{ {} {} }} fn g() {{ {} }} g();", if uses_p { "p" } else { "" }, first, body_call, start),
                ));
            }
        }
    }
    for d in [1000i64, 2000, 4000, 4094, 4095] {
        v.push((format!("bounded non-tail depth {}", d), format!("fn f(n) {{ if n == 0 {{ 0 }} else {{ 1 + f(n - 1) }} }} f({});", d)));
    }
    // many locals called at various stack heights
    for l in [0usize, 1, 100, 254, 255, 256] {
        let locals: String = (0..l).map(|i| format!("let l{} = {}; ", i, i)).collect();
        for depth in [1i64, 10, 15, 16, 17, 40, 4000] {
            v.push((
                format!("locals={} depth={}", l, depth),
                format!("fn f(n) {{ {}if n > 0 {{ f(n - 1) }} else {{ 0 }} }} f({});", locals, depth),
            ));
        }
        // called with many operands already pending
        let pend: String = (0..3900).map(|_| "1, ").collect();
        v.push((format!("locals={} under 3900 pending operands", l), format!("fn f() {{ {}0 }} let a = [{}f()]; len(a);", locals, pend)));
    }
    // operand stack exhaustion without calls
    for n in [4095usize, 4096, 4097, 5000] {
        let el: String = (0..n).map(|i| if i == 0 { "0".to_string() } else { ",0".to_string() }).collect();
        v.push((format!("array literal of {} elements", n), format!("len([{}]);", el)));
    }
    v
}

fn filter_programs() -> Vec<(String, String)> {
    let mut v = vec![];
    let jumps = ["break;", "continue;", "break lbl;", "return;", "return 1;"];
    for j in jumps {
        v.push((format!("{} in action", j), format!("@ true {{ {} }}", j)));
        v.push((format!("{} in end action", j), format!("@ end {{ {} }}", j)));
        v.push((format!("{} in nested block of action", j), format!("@ true {{ if true {{ {} }} }}", j)));
        v.push((format!("{} in loop in action", j), format!("@ true {{ let i = 0; lbl: loop {{ i = i + 1; if i > 2 {{ break; }} {} }} }}", j)));
        v.push((format!("{} in function in action", j), format!("@ true {{ let f = fn() {{ {} }}; f(); }}", j)));
        // the filter itself nested in another construct
        for (hn, holder) in [
            ("function body", "fn w() { □ } w();"),
            ("uncalled function body", "fn w() { □ }"),
            ("function literal", "let w = fn() { □ }; w();"),
            ("nested functions", "fn w() { fn u() { □ } u(); } w();"),
            ("block", "{ □ }"),
            ("if branch", "if true { □ }"),
            ("loop body", "let i = 0; while i < 1 { i = i + 1; □ }"),
        ] {
            for (fname, filt) in [("action", format!("@ true {{ {} }}", j)), ("nested block of action", format!("@ true {{ if true {{ {} }} }}", j)), ("end action", format!("@ end {{ {} }}", j))] {
                v.push((format!("{} in {} of a filter inside a {}", j, fname, hn), holder.replace("□", &filt)));
            }
        }
    }
    for (i, val) in crate::p06::truth_values().iter().enumerate() {
        v.push((format!("pattern value #{} with action", i), format!("let v = {}; @ v {{ let l = 1; }}", val.to_src())));
        v.push((format!("pattern value #{} without action", i), format!("let v = {}; @ v", val.to_src())));
    }
    let extra = [
        ("filter inside function body", "fn f() { @ true { 1; } } f();"),
        ("filter inside function capturing a local", "fn f() { let loc = 1; @ loc == 1 { loc; } } f();"),
        ("filter inside block", "{ let b = 1; @ b == 1 { b; } }"),
        ("filter inside loop", "let i = 0; while i < 2 { i = i + 1; @ i > 0 }"),
        ("filter inside filter", "@ true { @ true { 1; } }"),
        ("action with locals and a call", "fn g(x) { x + 1 } @ true { let a = g(NP); let b = [a, PL, WL, TSS, TSU]; b[0]; }"),
        ("action raising a runtime error", "@ true { 1 / 0; }"),
        ("pattern raising a runtime error", "@ 1 / 0 == 1"),
        ("pattern property chain", "@ ($1).type == 2048 && ($2).ttl > 0"),
        ("$ beyond depth", "@ $11"),
        ("$ negative", "@ $(0 - 1) == null"),
        ("$ with huge index", "@ true { let k = 9223372036854775807; $k; }"),
        ("deep recursion inside action", "fn r(n) { r(n + 1) } @ true { r(0); }"),
        ("many locals in action", "@ true { let a0=0; let a1=1; let a2=2; let a3=3; let a4=4; let a5=5; let a6=6; let a7=7; a7; }"),
        ("two end filters", "@ end { 1; } @ end { 2; }"),
        ("assignment to packet fields", "@ true { ($1).src = \"00:00:00:00:00:01\"; ($0).caplen = 5; }"),
        ("assignment of wrong kinds", "@ true { ($1).src = 5; }"),
        ("closure defined in action and kept", "let keep = []; @ true { let n = NP; push(keep, fn() { n }); } @ end { len(keep); }"),
    ];
    for (n, s) in extra {
        v.push((n.to_string(), s.to_string()));
    }
    v
}

/// faithful in-process copy of main.rs::run_buf + run_filters (two packets on the stream)
fn run_filter_program(src: &str, dir: &std::path::Path) -> Result<String, String> {
    use crate::builtins::pcap::Pcap;
    use crate::builtins::variables::BuiltinVarType;
    guarded(|| {
        let bc = match front(src) {
            Front::Compiled(bc) => bc,
            Front::CompileError(..) => return "compile-error".to_string(),
            Front::ParseErrors(_) => return "parse-error".to_string(),
        };
        let filters = bc.filters.clone();
        let filter_end = bc.filter_end.clone();
        let mut vm = VM::new(bc);
        init_vars(&vm);
        let mut log = vec![];
        if let Err(e) = vm.run() {
            log.push(format!("main:{}", e.msg));
        }
        if filters.is_empty() && filter_end.is_none() {
            return format!("no-filters {}", log.join("|"));
        }
        vm.update_builtin_var(BuiltinVarType::NP, Rc::new(Object::Integer(0)));
        let p = dir.join("two.pcap");
        let mut bytes = crate::p06::one_packet_pcap();
        let rec = bytes[24..].to_vec();
        bytes.extend_from_slice(&rec);
        std::fs::write(&p, &bytes).unwrap();
        let f = (builtin("open"))(vec![Rc::new(Object::Str(p.to_str().unwrap().into()))]).unwrap();
        let fh = match f.as_ref() {
            Object::File(fh) => fh.clone(),
            _ => return "cannot open pcap".into(),
        };
        let pcap_in = Pcap::from_file(fh).unwrap();
        let mut count = 1;
        'out: loop {
            match pcap_in.next_packet() {
                Ok(pkt) => {
                    vm.set_curr_pkt(pkt.clone());
                    vm.update_builtin_var(BuiltinVarType::NP, Rc::new(Object::Integer(count)));
                    for filter in &filters {
                        if let Err(e) = vm.push_filter_frame(filter) {
                            log.push(format!("push:{}", e.msg));
                            break 'out;
                        }
                        if let Err(e) = vm.run() {
                            log.push(format!("run:{}", e.msg));
                            break 'out;
                        }
                        match vm.pop_filter_frame() {
                            Ok(true) => {
                                let _b: Vec<u8> = pkt.as_ref().into();
                                log.push("write".into());
                            }
                            Ok(false) => {}
                            Err(e) => {
                                log.push(format!("pop:{}", e.msg));
                                break;
                            }
                        }
                    }
                    count += 1;
                }
                Err(_) => break,
            }
        }
        vm.update_builtin_var(BuiltinVarType::PL, Rc::new(Object::Null));
        vm.update_builtin_var(BuiltinVarType::WL, Rc::new(Object::Null));
        if let Some(filter) = filter_end {
            if let Err(e) = vm.push_filter_frame(&filter) {
                log.push(format!("push-end:{}", e.msg));
            } else if let Err(e) = vm.run() {
                log.push(format!("run-end:{}", e.msg));
            } else if let Err(e) = vm.pop_filter_frame() {
                log.push(format!("pop-end:{}", e.msg));
            }
        }
        format!("filters ran: {}", if log.iter().any(|l| l.contains(':')) { "with reported errors" } else { "clean" })
    })
}

/// filter programs run through the binary on a 5000-packet stream (more packets than frames)
const LONG_STREAM: &[&str] = &[
    "@ true { 1 / 0; }",
    "@ 1 / 0 == 1",
    "@ true { [1][5]; } @ true { 2; }",
    "let n = 0; @ true { n = n + 1; } @ end { println(\"{}\", n); }",
];

/// deeply nested and self-containing containers used WITHOUT printing them, through the binary (the in-process
/// workers run on a 1 GiB stack and would not show a native stack overflow): (name, source, may hit the known finding)
fn container_programs() -> Vec<(String, String, bool)> {
    let mut v = vec![];
    for d in [10usize, 1000, 5000, 50000, 200000] {
        let build = format!("let a = []; let b = []; let i = 0; while i < {} {{ a = [a]; b = [b]; i = i + 1; }}", d);
        let deep = d > 5000;
        v.push((format!("nesting depth {} dropped at exit", d), format!("{} puts(i);", build), deep));
        v.push((format!("nesting depth {} compared", d), format!("{} puts(a == b);", build), deep));
        v.push((format!("nesting depth {} used as a map key", d), format!("{} let m = map {{}}; m[a] = 1; puts(len(m));", build), deep));
        v.push((format!("nesting depth {} rendered", d), format!("{} puts(len(str(a)));", build), deep));
    }
    // containers that contain themselves, never printed
    let selfy = "let a = [1]; push(a, a); let b = [1]; push(b, b); let m = map {}; m[\"self\"] = m; let m2 = map {};";
    // output builtins and the interpreter's own diagnostics while stdout (name prefix "stdout-full:") fails
    for src in [
        "puts(1); puts(\"a\", [1, 2]); puts();",
        "print(\"x\"); println(\"{} {}\", 1, \"y\"); print(\"{}\", \"0123456789\" * 2000);",
        "let i = 0; while i < 3000 { i = i + 1; puts(i); }",
        "println(\"before\"); 1 / 0;",
        "puts(1); nosuch;",
        "puts(1); let y = ;",
        "input(\"prompt: \");",
        "println(\"a\"); [1, 2, 3]",
        "eprintln(\"to stderr\"); eprint(\"x\"); puts(2);",
    ] {
        v.push((format!("stdout-full: {}", src), src.to_string(), false));
    }
    for (n, use_, cyclic_walk) in [
        ("length and element access", "puts(len(a), len(a[1]), len(m));", false),
        ("dropped at exit", "puts(1);", false),
        ("compared with itself", "puts(a == a);", false),
        ("compared with another self-containing array", "puts(a == b);", true),
        ("used as a map key", "m2[a] = 1; puts(len(m2));", true),
        ("looked up as a map key", "puts(contains(m2, a));", true),
        ("map containing itself as part of a key", "m2[[m2]] = 1; m2[[m]] = 2; puts(len(m2));", false),
        ("insert with the map itself as key", "insert(m2, m2, 1); puts(len(m2));", false),
        ("sorted", "sort([a, b]);", true),
    ] {
        v.push((format!("self-containing: {}", n), format!("{} {}", selfy, use_), cyclic_walk));
    }
    v
}

pub struct P08 {
    nb: u64,
    n_kind: u64,
    bvals: Vec<V>,
    n_bound: u64,
    rec: Vec<(String, String)>,
    filt: Vec<(String, String)>,
    e2e: bool,
    cont: Vec<(String, String, bool)>,
    /// the complete operator x boundary-operand table of C09, judged here for crashes only
    ops: crate::p09::P09,
    /// the packet read sweep of C15 (every frame x every cut length x named and $n read sequences), judged here for crashes only
    pk: crate::p15::P15,
}
impl P08 {
    pub fn new(tier: Tier) -> P08 {
        let nb = BUILTINFNS.len() as u64;
        let per = 1 + NKINDS + NKINDS * NKINDS + NKINDS * NKINDS * NKINDS;
        let bvals = boundary_values();
        let nv = bvals.len() as u64;
        P08 { nb, n_kind: nb * per, n_bound: nb * (nv + nv * nv), bvals, rec: recursion_programs(), filt: filter_programs(), e2e: std::path::Path::new(&bin_path()).exists(), cont: container_programs(), ops: crate::p09::P09::new(tier), pk: crate::p15::P15::new(tier) }
    }
    fn n_e2e(&self) -> u64 {
        if self.e2e { self.filt.len() as u64 + 3 + LONG_STREAM.len() as u64 + self.cont.len() as u64 } else { 0 }
    }
}

fn call_builtin_guarded(name: &str, args: Vec<Rc<Object>>) -> (String, Verdict) {
    if let Some(w) = excluded(name, &args) {
        return ("not-run".into(), Verdict::Skip(w));
    }
    let f = builtin(name);
    match guarded(move || f(args)) {
        Ok(Ok(_)) => ("value".into(), Verdict::Pass),
        Ok(Err(_)) => ("error".into(), Verdict::Pass),
        Err(m) => ("panic".into(), Verdict::Violation(format!("{} panicked: {}", name, one_line(&m, 200)))),
    }
}

impl Property for P08 {
    fn id(&self) -> &'static str {
        "C08"
    }
    fn len(&self) -> u64 {
        self.n_kind + self.n_bound + self.rec.len() as u64 + self.filt.len() as u64 + self.n_e2e() + self.ops.len() + self.pk.len()
    }
    fn horizon_secs(&self) -> u64 {
        30
    }
    fn describe(&self, idx: u64) -> Value {
        if idx >= self.len() - self.pk.len() {
            return json!({"packet reads (crash-only)": self.pk.describe(idx - (self.len() - self.pk.len()))});
        }
        let base = self.len() - self.ops.len() - self.pk.len();
        if idx >= base {
            return json!({"operator application (crash-only)": self.ops.describe(idx - base)});
        }
        if idx < self.n_kind {
            let per = self.n_kind / self.nb;
            let (b, r) = (idx / per, idx % per);
            let kinds = unrank_string(r, NKINDS, 3);
            json!({"builtin": BUILTINFNS[b as usize].name, "argument_kinds": kinds.iter().map(|k| KIND_NAMES[*k as usize]).collect::<Vec<_>>()})
        } else if idx < self.n_kind + self.n_bound {
            let i = idx - self.n_kind;
            let nv = self.bvals.len() as u64;
            let per = nv + nv * nv;
            let (b, r) = (i / per, i % per);
            let args: Vec<String> = if r < nv { vec![self.bvals[r as usize].to_src()] } else { vec![self.bvals[((r - nv) / nv) as usize].to_src(), self.bvals[((r - nv) % nv) as usize].to_src()] };
            json!({"builtin": BUILTINFNS[b as usize].name, "boundary_arguments": args})
        } else {
            let i = (idx - self.n_kind - self.n_bound) as usize;
            if i < self.rec.len() {
                json!({"recursion/frames": self.rec[i].0, "source_head": self.rec[i].1.chars().take(300).collect::<String>()})
            } else if i < self.rec.len() + self.filt.len() {
                let f = &self.filt[i - self.rec.len()];
                json!({"filter program (in-process filter loop)": f.0, "source": f.1})
            } else {
                let k = i - self.rec.len() - self.filt.len();
                if k < self.filt.len() {
                    json!({"filter program (binary)": self.filt[k].0, "source": self.filt[k].1})
                } else if k >= self.filt.len() + 3 + LONG_STREAM.len() {
                    let c = &self.cont[k - self.filt.len() - 3 - LONG_STREAM.len()];
                    json!({"containers (binary)": c.0, "source": c.1})
                } else if k < self.filt.len() + 3 {
                    json!({"exit status (binary)": k - self.filt.len()})
                } else {
                    json!({"filter program on a 5000-packet stream (binary)": LONG_STREAM[k - self.filt.len() - 3]})
                }
            }
        }
    }
    fn run(&self, idx: u64) -> CaseOut {
        if idx >= self.len() - self.pk.len() {
            let o = self.pk.run(idx - (self.len() - self.pk.len()));
            return match &o.verdict {
                Verdict::Violation(m) if o.class.ends_with("panic") => CaseOut::viol("packet-read panic", m.clone()).with_counts(o.states, o.transitions, o.traces),
                _ => CaseOut::pass("packet-read no-crash").with_counts(o.states, o.transitions, o.traces),
            };
        }
        let base = self.len() - self.ops.len() - self.pk.len();
        if idx >= base {
            let o = self.ops.run(idx - base);
            let kind = o.class.split(" -> ").next().unwrap_or("").to_string();
            return match &o.verdict {
                Verdict::Violation(m) if o.class.ends_with("panic") => CaseOut::viol(format!("operator {} panic", kind), m.clone()),
                _ => CaseOut::pass(format!("operator {} no-crash", kind)),
            };
        }
        let dir = scratch();
        if idx < self.n_kind {
            let per = self.n_kind / self.nb;
            let (b, r) = (idx / per, idx % per);
            let name = BUILTINFNS[b as usize].name;
            let kinds = unrank_string(r, NKINDS, 3);
            let args: Vec<Rc<Object>> = kinds.iter().map(|k| kind_value(*k, &dir)).collect();
            let (o, v) = call_builtin_guarded(name, args);
            return CaseOut { class: format!("{}/{} -> {}", name, kinds.len(), o), verdict: v, states: 1, transitions: 1, traces: 1 };
        }
        let idx = idx - self.n_kind;
        if idx < self.n_bound {
            let nv = self.bvals.len() as u64;
            let per = nv + nv * nv;
            let (b, r) = (idx / per, idx % per);
            let name = BUILTINFNS[b as usize].name;
            let vals: Vec<&V> = if r < nv { vec![&self.bvals[r as usize]] } else { vec![&self.bvals[((r - nv) / nv) as usize], &self.bvals[((r - nv) % nv) as usize]] };
            // exclusions of the property: results that need more memory than the machine has
            if name == "format" || name.ends_with("print") || name.ends_with("println") {
                // widths come from the format string; the boundary strings above keep them small
            }
            let args: Vec<Rc<Object>> = vals.iter().map(|v| to_object(v)).collect();
            let (o, v) = call_builtin_guarded(name, args);
            return CaseOut { class: format!("{} boundary/{} -> {}", name, vals.len(), o), verdict: v, states: 1, transitions: 1, traces: 1 };
        }
        let i = (idx - self.n_bound) as usize;
        if i < self.rec.len() {
            let (name, src) = &self.rec[i];
            return match guarded(|| run_src(src).outcome) {
                Err(m) => CaseOut::viol(format!("recursion/frames panic"), format!("{}: panicked: {}", name, one_line(&m, 200))),
                Ok(Outcome::Value(_)) => CaseOut::pass("recursion/frames value"),
                Ok(Outcome::RtErr(..)) => CaseOut::pass("recursion/frames reported-error"),
                Ok(Outcome::CompileErr) => CaseOut::pass("recursion/frames compile-error"),
                Ok(Outcome::ParseErr) => CaseOut::viol("recursion/frames parse", format!("MACHINERY: {} does not parse", name)),
            };
        }
        let i = i - self.rec.len();
        if i < self.filt.len() {
            let (name, src) = &self.filt[i];
            return match run_filter_program(src, &dir) {
                Err(m) => CaseOut::viol("filter panic", format!("{} (`{}`): panicked: {}", name, src, one_line(&m, 200))),
                Ok(o) => CaseOut::pass(format!("filter {}", o.split(' ').next().unwrap_or(""))),
            };
        }
        let k = i - self.filt.len();
        if k < self.filt.len() {
            let (name, src) = &self.filt[k];
            let path = dir.join("f.p2");
            std::fs::write(&path, src).unwrap();
            let mut bytes = crate::p06::one_packet_pcap();
            let rec = bytes[24..].to_vec();
            bytes.extend_from_slice(&rec);
            let o = run_bin(&["-s", path.to_str().unwrap()], &bytes, &[], 20);
            return if o.crashed() {
                CaseOut::viol("filter(binary) crash", format!("{} (`{}`): status {:?} signal {:?} timed_out {} stderr {}", name, src, o.status, o.signal, o.timed_out, one_line(&o.err_s(), 200)))
            } else {
                CaseOut::pass("filter(binary) ok")
            };
        }
        if k >= self.filt.len() + 3 + LONG_STREAM.len() {
            let (name, src, walks) = &self.cont[k - self.filt.len() - 3 - LONG_STREAM.len()];
            if name.starts_with("stdout-full:") {
                // once with stdout on a full device, once with stderr too (through a shell redirection)
                let o = run_bin_ext(&["-c", src], b"line\n", &[], 60, Some("/dev/full"));
                let sh = format!("exec \"{}\" -c '{}' > /dev/full 2> /dev/full", bin_path(), src.replace('\'', "'\\''"));
                let o2 = run_prog("/bin/sh", &["-c", &sh], b"line\n", &[], 60, None);
                for (which, r) in [("stdout", &o), ("stdout and stderr", &o2)] {
                    if r.timed_out || r.signal.is_some() || r.status == Some(101) || r.err_s().contains("panicked at") {
                        return CaseOut::viol("output-device-fails crash", format!("`{}` with {} on /dev/full: status {:?} signal {:?} stderr {}", src, which, r.status, r.signal, one_line(&r.err_s(), 200)));
                    }
                }
                return CaseOut::pass("output-device-fails ok");
            }
            let o = run_bin(&["-c", src], b"", &[], 60);
            if o.crashed() {
                let err = o.err_s();
                let native = matches!(o.signal, Some(6) | Some(11)) && err.contains("overflowed its stack");
                return CaseOut {
                    class: "containers(binary) native-stack-overflow".into(),
                    verdict: if native && *walks {
                        known_or_violation("C08", "container-recursion-on-native-stack", format!("{}: native stack overflow", name))
                    } else {
                        Verdict::Violation(format!("{} (`{}`): status {:?} signal {:?} timed_out {} stderr {}", name, one_line(src, 160), o.status, o.signal, o.timed_out, one_line(&err, 200)))
                    },
                    states: 1,
                    transitions: 1,
                    traces: 1,
                };
            }
            return CaseOut::pass("containers(binary) ok");
        }
        if k >= self.filt.len() + 3 {
            let src = LONG_STREAM[k - self.filt.len() - 3];
            let path = dir.join("long.p2");
            std::fs::write(&path, src).unwrap();
            let one = crate::p06::one_packet_pcap();
            let mut bytes = one[..24].to_vec();
            for _ in 0..5000 {
                bytes.extend_from_slice(&one[24..]);
            }
            let o = run_bin(&["-s", path.to_str().unwrap()], &bytes, &[], 60);
            return if o.crashed() {
                CaseOut::viol("long-stream(binary) crash", format!("`{}` on 5000 packets: status {:?} signal {:?} timed_out {} stderr tail {}", src, o.status, o.signal, o.timed_out, one_line(&o.err_s().chars().rev().take(300).collect::<String>().chars().rev().collect::<String>(), 300)))
            } else {
                CaseOut::pass("long-stream(binary) ok")
            };
        }
        // exit statuses through the binary
        let (code, want) = [("exit(0);", 0), ("exit(3);", 3), ("puts(1); exit(255); puts(2);", 255)][k - self.filt.len()];
        let o = run_bin(&["-c", code], b"", &[], 10);
        if o.crashed() || o.status != Some(want) {
            CaseOut::viol("exit status", format!("`{}` ended with status {:?} (signal {:?}), expected {}", code, o.status, o.signal, want))
        } else {
            CaseOut::pass("exit status")
        }
    }
    fn rule(&self) -> String {
        format!("every one of the {} builtins x arity 0..3 x every tuple of {} argument kinds {:?}; every builtin x every single and every pair of {} boundary values (integer limits, shift/precision boundaries, surrogate/astral code points, special floats, boundary strings, invalid UTF-8 byte arrays, mixed arrays); {} recursion/frame/locals programs (direct recursion of arity 1-4 with 0-3 locals to depths around 4096 and unbounded, mutual/closure/non-tail recursion, functions with up to 256 locals called at stack heights around the limit, literals exhausting the operand stack); {} filter programs (break/continue/return at every position of actions and end actions, every truthiness representative as pattern with and without an action, filters inside functions/blocks/loops/filters, failing patterns and actions) run on a two-packet stream through an in-process copy of main.rs's filter loop and through the binary; exit statuses through the binary; containers nested 10 .. 200000 deep and containers that contain themselves, dropped / compared / hashed / rendered (never printed when self-containing) through the binary; output builtins and diagnostics with stdout / stderr on a full device. Oracle: never a panic, abort, signal or hang. the complete operator x boundary-operand table of C09 and the complete packet read sweep of C15 (every frame of its link x network x transport grid incl. QinQ, cut at every length, every named and $n read sequence) are re-run with the crash-only oracle. (The generated program spaces of C02, C04, C05 also report crashes.)", self.nb, NKINDS, KIND_NAMES, self.bvals.len(), self.rec.len(), self.filt.len())
    }
    fn bounds(&self) -> Value {
        json!({"builtin_kind_calls": self.n_kind, "builtin_boundary_calls": self.n_bound, "recursion_programs": self.rec.len(), "filter_programs": self.filt.len(), "binary_runs": self.n_e2e()})
    }
    fn assumptions(&self) -> Vec<String> {
        vec!["exit(n) and sleep(n != 0) are not called in-process (they end/block the process by design); exit is checked through the binary".into(),
             "non-termination is decided up to a 30 s per-case horizon".into(),
             "requests for more memory than the machine has are excluded by the property and not generated; containers that contain themselves are generated but never printed".into()]
    }
}
