//! C17 — assigning a header field changes exactly that field.
//! Single assignments: every writable property x in-range values x backgrounds, four checks each
//! (read-back, read-back after serialise + re-parse, every other property unchanged, bytes differ only
//! inside the field's bit range); invalid values (error + unchanged, or reduced modulo 2^w);
//! histories: BFS over sequences of assignments against a byte-level model.

use crate::code::prop::PacketPropType as P;
use crate::fw::*;
use crate::object::Object;
use crate::p16::{expected_text, observed_text};
use crate::pkt::*;
use crate::refval::{to_object, V};
use crate::subject::*;
use serde_json::{json, Value};
use std::collections::{BTreeSet, VecDeque};
use std::rc::Rc;

/// two frames that together contain every layer: (name, bytes, layer -> (start offset, named path))
struct Frame {
    name: &'static str,
    bytes: Vec<u8>,
    layers: Vec<(&'static str, usize, Vec<P>)>,
}

fn frames(bg: u8) -> Vec<Frame> {
    let byte = |i: usize| if bg == 1 { pat(i) } else if bg == 0 { 0u8 } else { 0xFF };
    // A: Ethernet / IPv4 (IHL 6, one option word) / TCP (data offset 6) / 8 payload bytes
    let mut a: Vec<u8> = (0..14 + 24 + 24 + 8).map(byte).collect();
    a[12] = 0x08;
    a[13] = 0x00;
    a[14] = 0x46;
    a[14 + 9] = 6;
    a[38 + 12] = 0x60 | (a[38 + 12] & 0x0F);
    // B: Ethernet / VLAN / IPv6 / UDP / 8 payload bytes
    let mut b: Vec<u8> = (0..14 + 4 + 40 + 8 + 8).map(byte).collect();
    b[12] = 0x81;
    b[13] = 0x00;
    b[16] = 0x86;
    b[17] = 0xDD;
    b[18] = 0x60 | (b[18] & 0x0F);
    b[18 + 6] = 17;
    // frames whose last header announces no known layer, or one that is cut short: only the selector
    // field of that header is assigned on them (extra_frames_from)
    let mk = |len: usize, f: &dyn Fn(&mut Vec<u8>)| -> Vec<u8> {
        let mut v: Vec<u8> = (0..len).map(byte).collect();
        f(&mut v);
        v
    };
    let set_type = |v: &mut Vec<u8>, at: usize, t: u16| {
        v[at] = (t >> 8) as u8;
        v[at + 1] = t as u8;
    };
    let ip4 = |v: &mut Vec<u8>, proto: u8| {
        set_type(v, 12, 0x0800);
        v[14] = 0x45;
        v[14 + 9] = proto;
    };
    let ip6 = |v: &mut Vec<u8>, at: usize, nh: u8| {
        v[at] = 0x60 | (v[at] & 0x0F);
        v[at + 6] = nh;
    };
    let extra = vec![
        Frame { name: "eth/ipv4/icmp (protocol 1: no known layer)", bytes: mk(14 + 20 + 16, &|v| ip4(v, 1)), layers: vec![("eth", 0, vec![P::Eth]), ("ipv4", 14, vec![P::Eth, P::Ipv4])] },
        Frame { name: "eth/arp (type 0x0806: no known layer)", bytes: mk(14 + 28, &|v| set_type(v, 12, 0x0806)), layers: vec![("eth", 0, vec![P::Eth])] },
        Frame {
            name: "eth/vlan/type 0x88b5 (no known layer)",
            bytes: mk(14 + 4 + 30, &|v| {
                set_type(v, 12, 0x8100);
                set_type(v, 16, 0x88B5)
            }),
            layers: vec![("eth", 0, vec![P::Eth]), ("vlan", 14, vec![P::Eth, P::Vlan])],
        },
        Frame {
            name: "eth/ipv6/icmpv6 (next header 58: no known layer)",
            bytes: mk(14 + 40 + 16, &|v| {
                set_type(v, 12, 0x86DD);
                ip6(v, 14, 58)
            }),
            layers: vec![("eth", 0, vec![P::Eth]), ("ipv6", 14, vec![P::Eth, P::Ipv6])],
        },
        Frame { name: "eth/15 bytes of an ipv4 header", bytes: mk(14 + 15, &|v| set_type(v, 12, 0x0800)), layers: vec![("eth", 0, vec![P::Eth])] },
        Frame { name: "eth/ipv4/10 bytes of a tcp header", bytes: mk(14 + 20 + 10, &|v| ip4(v, 6)), layers: vec![("eth", 0, vec![P::Eth]), ("ipv4", 14, vec![P::Eth, P::Ipv4])] },
        Frame {
            name: "eth/ipv6/4 bytes of a udp header",
            bytes: mk(14 + 40 + 4, &|v| {
                set_type(v, 12, 0x86DD);
                ip6(v, 14, 17)
            }),
            layers: vec![("eth", 0, vec![P::Eth]), ("ipv6", 14, vec![P::Eth, P::Ipv6])],
        },
        Frame {
            name: "eth/vlan/10 bytes of an ipv6 header",
            bytes: mk(14 + 4 + 10, &|v| {
                set_type(v, 12, 0x8100);
                set_type(v, 16, 0x86DD)
            }),
            layers: vec![("eth", 0, vec![P::Eth]), ("vlan", 14, vec![P::Eth, P::Vlan])],
        },
    ];
    let mut all = vec![
        Frame {
            name: "eth/ipv4+options/tcp+options",
            bytes: a,
            layers: vec![("eth", 0, vec![P::Eth]), ("ipv4", 14, vec![P::Eth, P::Ipv4]), ("tcp", 38, vec![P::Eth, P::Ipv4, P::Tcp])],
        },
        Frame {
            name: "eth/vlan/ipv6/udp",
            bytes: b,
            layers: vec![
                ("eth", 0, vec![P::Eth]),
                ("vlan", 14, vec![P::Eth, P::Vlan]),
                ("ipv6", 18, vec![P::Eth, P::Vlan, P::Ipv6]),
                ("udp", 58, vec![P::Eth, P::Vlan, P::Ipv6, P::Udp]),
            ],
        },
    ];
    all.extend(extra);
    all
}
/// frames from this index on only have the selector field of their last header assigned
const EXTRA_FRAMES_FROM: usize = 2;
fn is_selector(f: &Field) -> bool {
    matches!(f.name, "type" | "proto" | "nextheader")
}

fn value_object(kind: FKind, v: u128) -> Rc<Object> {
    match kind {
        FKind::UInt => Rc::new(Object::Integer(v as i64)),
        FKind::Bool => Rc::new(Object::Bool(v == 1)),
        FKind::Mac => Rc::new(Object::Str(mac_text(v))),
        FKind::Ip4 => Rc::new(Object::Str(std::net::Ipv4Addr::from(v as u32).to_string())),
        FKind::Ip6 => {
            // full (uncompressed) form; the compressed forms are C18's business
            let a = std::net::Ipv6Addr::from(v);
            let s = a.segments();
            Rc::new(Object::Str(format!("{:x}:{:x}:{:x}:{:x}:{:x}:{:x}:{:x}:{:x}", s[0], s[1], s[2], s[3], s[4], s[5], s[6], s[7])))
        }
    }
}

fn in_range_values(f: &Field, tier: Tier) -> Vec<u128> {
    if f.width <= 12 || (f.width <= 16 && tier == Tier::Thorough) {
        return (0..(1u128 << f.width)).collect();
    }
    let all: u128 = if f.width >= 128 { u128::MAX } else { (1u128 << f.width) - 1 };
    let mut v = vec![0, 1, all, all - 1, 1 << (f.width - 1), 0x0123_4567_89AB_CDEF_1122_3344_5566_7788 & all, 0xFEDC_BA98_7654_3210_8877_6655_4433_2211 & all];
    for b in 0..f.width {
        v.push(1u128 << b);
        v.push(all ^ (1u128 << b));
    }
    if f.width == 16 {
        v.extend([0x8100, 0x0800, 0x86DD, 0x0806]); // the dispatch values of a type field
    }
    v.sort();
    v.dedup();
    v
}

fn walk(vm: &crate::vm::interpreter::VM, pkt: &Rc<crate::builtins::pcap::PcapPacket>, path: &[P]) -> Result<Rc<Object>, String> {
    let mut o: Rc<Object> = Rc::new(Object::Packet(pkt.clone()));
    for p in path {
        o = vm.exec_prop_expr(o, *p as u8, None, 1).map_err(|e| e.msg)?;
    }
    Ok(o)
}

/// read every field of every layer of the frame (canonical text), via fresh named paths
fn read_all(vm: &crate::vm::interpreter::VM, pkt: &Rc<crate::builtins::pcap::PcapPacket>, fr: &Frame) -> Result<Vec<(String, String)>, String> {
    let mut out = vec![];
    for (layer, _, path) in &fr.layers {
        for f in fields_of(layer) {
            let lo = walk(vm, pkt, path)?;
            let got = vm.exec_prop_expr(lo, f.prop as u8, None, 1).map_err(|e| format!("{}.{}: {}", layer, f.name, e.msg))?;
            out.push((format!("{}.{}", layer, f.name), observed_text(f.kind, &got)));
        }
    }
    // every layer name read at every level: what is there (which kind of layer, null, which error object, or
    // a runtime error where the name does not exist) is part of what "reads as before" covers, and such a
    // read must never disturb the materialised chain
    for (layer, _, path) in &fr.layers {
        for other in [P::Vlan, P::Ipv4, P::Ipv6, P::Udp, P::Tcp] {
            if let Ok(lo) = walk(vm, pkt, path) {
                let what = match vm.exec_prop_expr(lo, other as u8, None, 1) {
                    Ok(o) => match o.as_ref() {
                        Object::Null => "null".to_string(),
                        Object::Err(_) => format!("error object {}", o),
                        _ => layer_of(&o).to_string(),
                    },
                    Err(_) => "no such property".to_string(),
                };
                out.push((format!("{}.<{:?}>", layer, other), what));
            }
        }
    }
    for (name, prop) in [("sec", P::Sec), ("usec", P::USec), ("caplen", P::Caplen), ("wirelen", P::Wirelen)] {
        let got = vm.exec_prop_expr(Rc::new(Object::Packet(pkt.clone())), prop as u8, None, 1).map_err(|e| e.msg)?;
        out.push((format!("packet.{}", name), canon(&got)));
    }
    Ok(out)
}

/// the assignment alphabet of the history search: every writable field of every layer x 2 values
fn history_actions(fr: &Frame) -> Vec<(usize, &'static Field, u128)> {
    let mut actions: Vec<(usize, &'static Field, u128)> = vec![];
    for (li, (layer, _, _)) in fr.layers.iter().enumerate() {
        for f in fields_of(layer) {
            if f.writable {
                let all: u128 = if f.width >= 128 { u128::MAX } else { (1u128 << f.width) - 1 };
                actions.push((li, f, 0x5A5A_5A5A_5A5A_5A5A_A5A5_A5A5_A5A5_A5A5 & all));
                actions.push((li, f, all));
            }
        }
    }
    actions
}

#[derive(Clone)]
enum Case {
    /// (background, frame index, layer index, field index within FIELDS)
    /// (.., chunk, number of chunks): the value set is split by stride so that no case outgrows the horizon
    Single(u8, usize, usize, usize, usize, usize),
    Invalid(usize, usize, usize),
    Record,
    /// (frame index, first assignment of the history: the search is split by it so that it runs in parallel)
    History(usize, usize),
}

pub struct P17 {
    cases: Vec<Case>,
    tier: Tier,
}
impl P17 {
    pub fn new(tier: Tier) -> P17 {
        let mut cases = vec![];
        for bg in 0..3u8 {
            for (fi, fr) in frames(bg).iter().enumerate() {
                for (li, (layer, _, _)) in fr.layers.iter().enumerate() {
                    for (k, f) in FIELDS.iter().enumerate() {
                        if fi >= EXTRA_FRAMES_FROM && !(bg == 1 && li + 1 == fr.layers.len() && is_selector(f)) {
                            continue;
                        }
                        if f.layer == *layer && f.writable {
                            let nch = if in_range_values(f, tier).len() > 4096 { 16 } else { 1 };
                            for ch in 0..nch {
                                cases.push(Case::Single(bg, fi, li, k, ch, nch));
                            }
                            if bg == 1 && fi < EXTRA_FRAMES_FROM {
                                cases.push(Case::Invalid(fi, li, k));
                            }
                        }
                    }
                }
            }
        }
        cases.push(Case::Record);
        for fi in 0..2 {
            for a0 in 0..history_actions(&frames(1)[fi]).len() {
                cases.push(Case::History(fi, a0));
            }
        }
        P17 { cases, tier }
    }
}

/// one assignment with all four checks; returns Ok(()) or a description of the deviation
fn check_assignment(
    vm: &crate::vm::interpreter::VM,
    dir: &std::path::Path,
    fr: &Frame,
    li: usize,
    f: &Field,
    v: u128,
) -> Result<(), String> {
    let (layer, start, path) = &fr.layers[li];
    let pkt = load_frames(dir, "asg", &[fr.bytes.clone()]).remove(0);
    let before_props = read_all(vm, &pkt, fr)?;
    let before_bytes = serialize(&pkt);
    let lo = walk(vm, &pkt, path)?;
    let what = format!("{}.{} = {}", layer, f.name, canon(&value_object(f.kind, v)));
    vm.exec_prop_expr(lo, f.prop as u8, Some(value_object(f.kind, v)), 1).map_err(|e| format!("{} on {}: in-range value rejected: {}", what, fr.name, e.msg))?;
    // (1) immediate read-back
    let lo = walk(vm, &pkt, path)?;
    let got = vm.exec_prop_expr(lo, f.prop as u8, None, 1).map_err(|e| e.msg)?;
    let want = expected_text(f.kind, v);
    if observed_text(f.kind, &got) != want {
        return Err(format!("{} on {}: immediate read-back gives {} instead of {}", what, fr.name, observed_text(f.kind, &got), want));
    }
    // (3) every other property reads as before
    let after_props = read_all(vm, &pkt, fr)?;
    for ((n, b), (_, a)) in before_props.iter().zip(after_props.iter()) {
        if *n != format!("{}.{}", layer, f.name) && a != b {
            return Err(format!("{} on {}: {} changed from {} to {}", what, fr.name, n, b, a));
        }
    }
    // (4) the serialised bytes differ only inside the field's bit range
    let after_bytes = serialize(&pkt);
    if after_bytes.len() != before_bytes.len() {
        return Err(format!("{} on {}: the serialised packet changed length from {} to {}", what, fr.name, before_bytes.len(), after_bytes.len()));
    }
    let lo_bit = (16 + start) * 8 + f.bit;
    let hi_bit = lo_bit + f.width;
    for (i, (x, y)) in before_bytes.iter().zip(after_bytes.iter()).enumerate() {
        let d = x ^ y;
        for b in 0..8 {
            if d >> (7 - b) & 1 == 1 {
                let bit = i * 8 + b;
                if bit < lo_bit || bit >= hi_bit {
                    return Err(format!("{} on {}: serialised bit {} of frame byte {} changed (the field occupies frame bits {}..{})", what, fr.name, b, i as i64 - 16, lo_bit - 128, hi_bit - 128));
                }
            }
        }
    }
    // the field's own bits hold the value
    let got_bits = get_bits(&after_bytes[16 + start..], f.bit, f.width);
    if got_bits != v {
        return Err(format!("{} on {}: the serialised field holds {:#x} instead of {:#x}", what, fr.name, got_bits, v));
    }
    // (2) serialise, re-parse, read back
    let re = load_frames(dir, "re", &[after_bytes[16..].to_vec()]).remove(0);
    match walk(vm, &re, path) {
        Ok(lo) if !matches!(lo.as_ref(), Object::Err(_) | Object::Null) => {
            let got = vm.exec_prop_expr(lo, f.prop as u8, None, 1).map_err(|e| e.msg)?;
            if observed_text(f.kind, &got) != want {
                return Err(format!("{} on {}: after serialising and re-parsing the field reads {} instead of {}", what, fr.name, observed_text(f.kind, &got), want));
            }
        }
        // a header-length field may announce more bytes than the frame holds: the re-parsed layer is then
        // (correctly) reported as truncated; the serialised bits were checked above
        _ if f.name == "ihl" || f.name == "dataoff" => {}
        Ok(lo) => return Err(format!("{} on {}: after re-parsing the layer is {}", what, fr.name, layer_of(&lo))),
        Err(m) => return Err(format!("{} on {}: re-parsed packet cannot be walked: {}", what, fr.name, m)),
    }
    Ok(())
}

impl Property for P17 {
    fn id(&self) -> &'static str {
        "C17"
    }
    fn len(&self) -> u64 {
        self.cases.len() as u64
    }
    fn horizon_secs(&self) -> u64 {
        120
    }
    fn describe(&self, idx: u64) -> Value {
        match &self.cases[idx as usize] {
            Case::Single(bg, fi, _, k, ch, nch) => json!({"assign": format!("{}.{}", FIELDS[*k].layer, FIELDS[*k].name), "frame": (frames(*bg)[*fi].name), "background": (["0x00", "pattern", "0xFF"][*bg as usize]), "values": format!("all in-range values (<= 12 bits, thorough <= 16) or boundary + walking bits; every {}th value starting at #{}", nch, ch)}),
            Case::Invalid(fi, _, k) => json!({"assign invalid values to": format!("{}.{}", FIELDS[*k].layer, FIELDS[*k].name), "frame": (frames(1)[*fi].name)}),
            Case::Record => json!({"assign": "packet.sec / usec / caplen / wirelen"}),
            Case::History(fi, a0) => {
                let fr = &frames(1)[*fi];
                let acts = history_actions(fr);
                let (_, f, v) = &acts[*a0];
                json!({"histories": "BFS over sequences of assignments", "frame": (fr.name), "first_assignment": format!("{}.{} = {:#x}", f.layer, f.name, v)})
            }
        }
    }
    fn run(&self, idx: u64) -> CaseOut {
        let dir = scratch_dir("c17");
        let vm = empty_vm();
        let case = self.cases[idx as usize].clone();
        let tier = self.tier;
        let r = guarded(|| -> Result<(String, u64, u64), String> {
            match case {
                Case::Single(bg, fi, li, k, ch, nch) => {
                    let fr = &frames(bg)[fi];
                    let f = &FIELDS[k];
                    let vals: Vec<u128> = in_range_values(f, tier).into_iter().skip(ch).step_by(nch).collect();
                    for v in &vals {
                        check_assignment(&vm, &dir, fr, li, f, *v)?;
                    }
                    Ok((format!("assign {}.{}", f.layer, f.name), vals.len() as u64, vals.len() as u64 * 4))
                }
                Case::Invalid(fi, li, k) => {
                    let fr = &frames(1)[fi];
                    let f = &FIELDS[k];
                    let (layer, start, path) = &fr.layers[li];
                    let mut n = 0;
                    let mut invalid: Vec<Rc<Object>> = vec![];
                    if f.kind == FKind::UInt {
                        let max = (1i128 << f.width) - 1;
                        for x in [-1i128, max + 1, max + 2, 1 << 16, 1 << 32, (1 << 32) + 5, i64::MAX as i128, i64::MIN as i128, -(1 << 31)] {
                            if x < 0 || x > max {
                                if x >= i64::MIN as i128 && x <= i64::MAX as i128 {
                                    invalid.push(Rc::new(Object::Integer(x as i64)));
                                }
                            }
                        }
                    }
                    for other in [V::Str("x".into()), V::Bool(true), V::Null, V::Float(1.5), V::Int(3), V::Str("".into()), V::Str("1:2:3".into()), V::Char('a'), V::Byte(1)] {
                        let wrong_kind = match (f.kind, &other) {
                            (FKind::UInt, V::Int(_)) => false,
                            (FKind::Bool, V::Bool(_)) => false,
                            (FKind::Mac | FKind::Ip4 | FKind::Ip6, V::Str(s)) => s.is_empty() || s == "x" || s == "1:2:3",
                            _ => true,
                        };
                        if wrong_kind {
                            invalid.push(to_object(&other));
                        }
                    }
                    for val in invalid {
                        let pkt = load_frames(&dir, "inv", &[fr.bytes.clone()]).remove(0);
                        let before_props = read_all(&vm, &pkt, fr)?;
                        let before_bytes = serialize(&pkt);
                        let lo = walk(&vm, &pkt, path)?;
                        let res = vm.exec_prop_expr(lo, f.prop as u8, Some(val.clone()), 1);
                        let after_bytes = serialize(&pkt);
                        let after_props = read_all(&vm, &pkt, fr)?;
                        let what = format!("{}.{} = {} (invalid)", layer, f.name, canon(&val));
                        match res {
                            Err(_) => {
                                if after_bytes != before_bytes || after_props != before_props {
                                    return Err(format!("{}: a runtime error was raised but the packet changed", what));
                                }
                            }
                            Ok(_) => {
                                // accepted: must be the value reduced to the field's width, and nothing else may change
                                let reduced = match val.as_ref() {
                                    Object::Integer(i) if f.kind == FKind::UInt => (*i as u128) & ((1u128 << f.width) - 1),
                                    _ => return Err(format!("{}: a value of the wrong kind was accepted", what)),
                                };
                                let mut model = before_bytes.clone();
                                set_bits(&mut model[16 + start..], f.bit, f.width, reduced);
                                if after_bytes != model {
                                    let i = after_bytes.iter().zip(model.iter()).position(|(a, b)| a != b).unwrap_or(0);
                                    return Err(format!("{}: accepted, but the bytes are not the original with the field set to the value modulo 2^{} (first difference at frame byte {}: {:#04x} vs {:#04x})", what, f.width, i as i64 - 16, after_bytes[i], model[i]));
                                }
                            }
                        }
                        n += 1;
                    }
                    Ok((format!("invalid {}.{}", f.layer, f.name), n, n))
                }
                Case::Record => {
                    let fr = &frames(1)[0];
                    let mut n = 0;
                    for (k, prop) in [P::Sec, P::USec, P::Caplen, P::Wirelen].iter().enumerate() {
                        for v in [0u32, 1, 0x7FFF_FFFF, 0x8000_0000, 0xFFFF_FFFF, 0x0102_0304] {
                            let pkt = load_frames(&dir, "rec", &[fr.bytes.clone()]).remove(0);
                            let before = serialize(&pkt);
                            let po: Rc<Object> = Rc::new(Object::Packet(pkt.clone()));
                            vm.exec_prop_expr(po.clone(), *prop as u8, Some(Rc::new(Object::Integer(v as i64))), 1).map_err(|e| e.msg)?;
                            let got = vm.exec_prop_expr(po, *prop as u8, None, 1).map_err(|e| e.msg)?;
                            if canon(&got) != format!("i{}", v) {
                                return Err(format!("packet.{:?} = {}: read-back {}", prop, v, canon(&got)));
                            }
                            let after = serialize(&pkt);
                            let mut model = before.clone();
                            model[k * 4..k * 4 + 4].copy_from_slice(&v.to_le_bytes());
                            if after != model {
                                return Err(format!("packet.{:?} = {}: serialised record differs from the original with only that field changed", prop, v));
                            }
                            n += 1;
                        }
                    }
                    // the packet's own layer property takes an Ethernet layer object and nothing else
                    let donor = load_frames(&dir, "don", &[frames(1)[0].bytes.clone()]).remove(0);
                    let donor_ip = walk(&vm, &donor, &[P::Eth, P::Ipv4])?;
                    let mut wrong: Vec<Rc<Object>> = [V::Int(5), V::Null, V::Str("abc".into()), V::Bool(true), V::Float(1.5), V::Byte(1)].iter().map(to_object).collect();
                    wrong.push(donor_ip);
                    wrong.push(Rc::new(Object::Packet(donor.clone())));
                    for val in wrong {
                        let pkt = load_frames(&dir, "rec", &[fr.bytes.clone()]).remove(0);
                        let before_props = read_all(&vm, &pkt, fr)?;
                        let before = serialize(&pkt);
                        let res = vm.exec_prop_expr(Rc::new(Object::Packet(pkt.clone())), P::Eth as u8, Some(val.clone()), 1);
                        if res.is_ok() {
                            return Err(format!("packet.eth = {} (invalid): a value that is no Ethernet layer was accepted", layer_of(&val)));
                        }
                        if serialize(&pkt) != before || read_all(&vm, &pkt, fr)? != before_props {
                            return Err(format!("packet.eth = {} (invalid): a runtime error was raised but the packet changed", layer_of(&val)));
                        }
                        n += 1;
                    }
                    Ok(("record fields".into(), n, n))
                }
                Case::History(fi, a0) => {
                    // BFS over assignment sequences; model = frame bytes with the field writes applied;
                    // canonical state = model bytes; every transition replays the history on a fresh packet
                    let fr = &frames(1)[fi];
                    let actions = history_actions(fr);
                    let depth = tier.pick(2, 3);
                    let mut seen: BTreeSet<Vec<u8>> = BTreeSet::new();
                    let mut frontier: VecDeque<(Vec<usize>, Vec<u8>)> = VecDeque::new();
                    seen.insert(fr.bytes.clone());
                    frontier.push_back((vec![], fr.bytes.clone()));
                    let (mut states, mut transitions) = (1u64, 0u64);
                    while let Some((hist, model)) = frontier.pop_front() {
                        if hist.len() >= depth {
                            continue;
                        }
                        for (ai, (li, f, v)) in actions.iter().enumerate() {
                            if hist.is_empty() && ai != a0 {
                                continue; // the other first assignments are other cases
                            }
                            let (_, start, _) = &fr.layers[*li];
                            let mut m2 = model.clone();
                            set_bits(&mut m2[*start..], f.bit, f.width, *v);
                            transitions += 1;
                            let pkt = load_frames(&dir, "his", &[fr.bytes.clone()]).remove(0);
                            let mut h2 = hist.clone();
                            h2.push(ai);
                            for a in &h2 {
                                let (li, f, v) = &actions[*a];
                                let lo = walk(&vm, &pkt, &fr.layers[*li].2)?;
                                vm.exec_prop_expr(lo, f.prop as u8, Some(value_object(f.kind, *v)), 1).map_err(|e| format!("history {:?}: {}.{}: {}", h2, f.layer, f.name, e.msg))?;
                                // a read-everything step between assignments
                                let _ = read_all(&vm, &pkt, fr);
                            }
                            let out = serialize(&pkt);
                            if out[16..] != m2[..] {
                                let i = out[16..].iter().zip(m2.iter()).position(|(a, b)| a != b).unwrap_or(0);
                                let names: Vec<String> = h2.iter().map(|a| format!("{}.{}={:#x}", actions[*a].1.layer, actions[*a].1.name, actions[*a].2)).collect();
                                return Err(format!("after the assignments {:?} on {} the frame differs from the model at byte {} ({:#04x} vs {:#04x})", names, fr.name, i, out[16 + i], m2[i]));
                            }
                            if seen.insert(m2.clone()) {
                                states += 1;
                                frontier.push_back((h2, m2));
                            }
                        }
                    }
                    Ok((format!("histories depth {}", depth), states, transitions))
                }
            }
        });
        match r {
            Err(m) => CaseOut::viol("panic", format!("panicked: {}", one_line(&m, 300))),
            Ok(Err(m)) => {
                let cls: String = m.split(" = ").next().unwrap_or("").chars().take(40).collect();
                CaseOut::viol(format!("wrong {}", cls), m)
            }
            Ok(Ok((class, s, t))) => CaseOut::pass(class).with_counts(s, t, t),
        }
    }
    fn rule(&self) -> String {
        "single assignments: every writable header property (Ethernet, VLAN, IPv4, IPv6, UDP, TCP) x every in-range value for fields of <= 12 bits (thorough <= 16), boundary and walking-bit values otherwise (addresses as text) x 3 backgrounds x the frame containing the layer (Ethernet/IPv4 with options/TCP with options; Ethernet/VLAN/IPv6/UDP); after each assignment: (1) immediate read-back, (2) serialise, re-parse through a real pcap file, read back, (3) every other readable property of every layer and of the record reads as before, (4) the serialised bytes differ from the original only inside the field's bit range of the layout table and hold the value; invalid values (-1, max+1, max+2, 2^16, 2^32, i64 limits, every other value kind): runtime error with bytes and all reads unchanged, or exactly the value modulo 2^w; record fields sec/usec/caplen/wirelen, and packet.eth = 8 values that are no Ethernet layer (runtime error, packet unchanged); the selector field (type, proto, nextheader) of the last header of 8 more frames whose header announces no known layer (ICMP, ARP, an unknown EtherType behind a VLAN tag, ICMPv6) or a layer that is cut short (IPv4, TCP, UDP, IPv6): every in-range value incl. all dispatch values, the same four checks, where (3) covers what every layer name reads as at every level (kind of layer, null, which error object); histories: breadth-first search over sequences of <= 2 (thorough 3) assignments (every writable property x 2 values) with a read-everything step in between, canonical state = model bytes, each history replayed on a fresh packet".into()
    }
    fn bounds(&self) -> Value {
        json!({"cases": self.cases.len(), "tier": self.tier.name()})
    }
    fn assumptions(&self) -> Vec<String> {
        vec!["canonical state of the history search = model frame bytes (a correct packet's future is a function of its bytes)".into(),
             "after assigning a header-length field (ihl, dataoff) the re-parsed layer may be truncated; only the serialised bits are demanded there".into()]
    }
}
