//! Packet helpers: pcap file builder, real-parser loading, frame builders, RFC field layout table.

use crate::builtins::pcap::{Pcap, PcapPacket};
use crate::code::prop::PacketPropType as P;
use crate::object::Object;
use crate::subject::*;
use crate::vm::interpreter::VM;
use std::rc::Rc;

pub const MAGIC_US: u32 = 0xA1B2C3D4;
pub const MAGIC_NS: u32 = 0xA1B23C4D;

#[derive(Clone, Debug, PartialEq)]
pub struct Rec {
    pub sec: u32,
    pub usec: u32,
    pub wirelen: u32,
    pub data: Vec<u8>,
}

pub fn global_header(magic: u32, major: u16, minor: u16, zone: i32, sigfigs: u32, snaplen: u32, linktype: u32) -> Vec<u8> {
    let mut v = vec![];
    v.extend_from_slice(&magic.to_le_bytes());
    v.extend_from_slice(&major.to_le_bytes());
    v.extend_from_slice(&minor.to_le_bytes());
    v.extend_from_slice(&zone.to_le_bytes());
    v.extend_from_slice(&sigfigs.to_le_bytes());
    v.extend_from_slice(&snaplen.to_le_bytes());
    v.extend_from_slice(&linktype.to_le_bytes());
    v
}
pub fn record_bytes(r: &Rec) -> Vec<u8> {
    let mut v = vec![];
    v.extend_from_slice(&r.sec.to_le_bytes());
    v.extend_from_slice(&r.usec.to_le_bytes());
    v.extend_from_slice(&(r.data.len() as u32).to_le_bytes());
    v.extend_from_slice(&r.wirelen.to_le_bytes());
    v.extend_from_slice(&r.data);
    v
}
pub fn pcap_bytes(magic: u32, snaplen: u32, linktype: u32, recs: &[Rec]) -> Vec<u8> {
    let mut v = global_header(magic, 2, 4, 0, 0, snaplen, linktype);
    for r in recs {
        v.extend_from_slice(&record_bytes(r));
    }
    v
}

/// open a pcap file with the real `pcap_open`
pub fn open_pcap(path: &std::path::Path) -> Result<Rc<Object>, String> {
    (builtin("pcap_open"))(vec![Rc::new(Object::Str(path.to_str().unwrap().into()))])
}

/// Write the frames into a pcap file and read them back with the real parser.
pub fn load_frames(dir: &std::path::Path, tag: &str, frames: &[Vec<u8>]) -> Vec<Rc<PcapPacket>> {
    let recs: Vec<Rec> = frames.iter().enumerate().map(|(i, f)| Rec { sec: 100 + i as u32, usec: i as u32, wirelen: f.len() as u32 + 4, data: f.clone() }).collect();
    let path = dir.join(format!("{}.pcap", tag));
    std::fs::write(&path, pcap_bytes(MAGIC_US, 262144, 1, &recs)).unwrap();
    let f = (builtin("open"))(vec![Rc::new(Object::Str(path.to_str().unwrap().into()))]).unwrap();
    let fh = match f.as_ref() {
        Object::File(fh) => fh.clone(),
        _ => panic!("cannot open scratch pcap"),
    };
    let pcap = Pcap::from_file(fh).expect("scratch pcap header");
    let mut out = vec![];
    while let Ok(p) = pcap.next_packet() {
        out.push(p);
    }
    assert_eq!(out.len(), frames.len(), "scratch pcap read back incompletely");
    out
}

pub fn empty_vm() -> VM {
    match front("null;") {
        Front::Compiled(bc) => VM::new(bc),
        _ => panic!("cannot build a VM"),
    }
}

pub fn serialize(p: &Rc<PcapPacket>) -> Vec<u8> {
    Vec::<u8>::from(p.as_ref())
}

// ---------------------------------------------------------------------------------------------
// frame builders

/// distinguishable filler byte for position i
pub fn pat(i: usize) -> u8 {
    ((7 * i + 1) % 251) as u8
}

#[derive(Clone, Copy, Debug, PartialEq)]
pub enum Link {
    Eth,
    Vlan1,
    Vlan2,
    QinQ,
    Unknown,
}
#[derive(Clone, Copy, Debug, PartialEq)]
pub enum Net {
    V4(u8),
    V6,
    None,
}
#[derive(Clone, Copy, Debug, PartialEq)]
pub enum Trans {
    Tcp(u8),
    Udp,
    V6in4,
    Other,
}

/// Build a frame: every byte that is not structurally required carries the position pattern.
pub fn build_frame(link: Link, net: Net, tr: Trans, payload: usize) -> Vec<u8> {
    let mut f: Vec<u8> = vec![];
    let push_pat = |f: &mut Vec<u8>, n: usize| {
        for _ in 0..n {
            let i = f.len();
            f.push(pat(i));
        }
    };
    let ethertype_of = |net: Net| -> u16 {
        match net {
            Net::V4(_) => 0x0800,
            Net::V6 => 0x86DD,
            Net::None => 0x0806,
        }
    };
    push_pat(&mut f, 12);
    match link {
        Link::Eth => f.extend_from_slice(&ethertype_of(net).to_be_bytes()),
        Link::Unknown => f.extend_from_slice(&0x88B5u16.to_be_bytes()),
        Link::Vlan1 => {
            f.extend_from_slice(&0x8100u16.to_be_bytes());
            push_pat(&mut f, 2);
            f.extend_from_slice(&ethertype_of(net).to_be_bytes());
        }
        Link::Vlan2 => {
            f.extend_from_slice(&0x8100u16.to_be_bytes());
            push_pat(&mut f, 2);
            f.extend_from_slice(&0x8100u16.to_be_bytes());
            push_pat(&mut f, 2);
            f.extend_from_slice(&ethertype_of(net).to_be_bytes());
        }
        Link::QinQ => {
            f.extend_from_slice(&0x9100u16.to_be_bytes());
            push_pat(&mut f, 2);
            f.extend_from_slice(&0x8100u16.to_be_bytes());
            push_pat(&mut f, 2);
            f.extend_from_slice(&ethertype_of(net).to_be_bytes());
        }
    }
    let proto = match tr {
        Trans::Tcp(_) => 6u8,
        Trans::Udp => 17,
        Trans::V6in4 => 41,
        Trans::Other => 89,
    };
    match net {
        Net::V4(ihl) => {
            let start = f.len();
            f.push(0x40 | (ihl & 0x0F));
            push_pat(&mut f, 8);
            f.push(proto);
            push_pat(&mut f, 10);
            // options (as many bytes as IHL announces beyond 20)
            let hl = (ihl as usize) * 4;
            if hl > 20 {
                push_pat(&mut f, hl - 20);
            }
            let _ = start;
        }
        Net::V6 => {
            f.push(0x60 | (pat(f.len()) & 0x0F));
            push_pat(&mut f, 5);
            f.push(proto);
            push_pat(&mut f, 33);
        }
        Net::None => {}
    }
    if net != Net::None {
        match tr {
            Trans::Tcp(doff) => {
                push_pat(&mut f, 12);
                f.push((doff << 4) | (pat(f.len()) & 0x0F));
                push_pat(&mut f, 7);
                let hl = (doff as usize) * 4;
                if hl > 20 {
                    push_pat(&mut f, hl - 20);
                }
            }
            Trans::Udp => push_pat(&mut f, 8),
            Trans::V6in4 => {
                f.push(0x60);
                push_pat(&mut f, 5);
                f.push(17);
                push_pat(&mut f, 33);
                push_pat(&mut f, 8);
            }
            Trans::Other => {}
        }
    }
    push_pat(&mut f, payload);
    f
}

// ---------------------------------------------------------------------------------------------
// RFC field layout table

#[derive(Clone, Copy, Debug, PartialEq)]
pub enum FKind {
    UInt,
    Bool,
    Mac,
    Ip4,
    Ip6,
}

#[derive(Clone, Copy, Debug)]
pub struct Field {
    pub layer: &'static str,
    pub name: &'static str,
    pub prop: P,
    /// bit offset from the start of the layer's header (big-endian bit numbering) and width in bits
    pub bit: usize,
    pub width: usize,
    pub kind: FKind,
    pub writable: bool,
}

pub const FIELDS: &[Field] = &[
    // Ethernet II
    Field { layer: "eth", name: "dst", prop: P::Dst, bit: 0, width: 48, kind: FKind::Mac, writable: true },
    Field { layer: "eth", name: "src", prop: P::Src, bit: 48, width: 48, kind: FKind::Mac, writable: true },
    Field { layer: "eth", name: "type", prop: P::EtherType, bit: 96, width: 16, kind: FKind::UInt, writable: true },
    // IEEE 802.1Q tag (after the TPID)
    Field { layer: "vlan", name: "priority", prop: P::Priority, bit: 0, width: 3, kind: FKind::UInt, writable: true },
    Field { layer: "vlan", name: "dei", prop: P::Dei, bit: 3, width: 1, kind: FKind::Bool, writable: true },
    Field { layer: "vlan", name: "id", prop: P::Id, bit: 4, width: 12, kind: FKind::UInt, writable: true },
    Field { layer: "vlan", name: "type", prop: P::EtherType, bit: 16, width: 16, kind: FKind::UInt, writable: true },
    // IPv4 (RFC 791)
    Field { layer: "ipv4", name: "version", prop: P::Version, bit: 0, width: 4, kind: FKind::UInt, writable: false },
    Field { layer: "ipv4", name: "ihl", prop: P::Ihl, bit: 4, width: 4, kind: FKind::UInt, writable: true },
    Field { layer: "ipv4", name: "dscp", prop: P::Dscp, bit: 8, width: 6, kind: FKind::UInt, writable: true },
    Field { layer: "ipv4", name: "ecn", prop: P::Ecn, bit: 14, width: 2, kind: FKind::UInt, writable: true },
    Field { layer: "ipv4", name: "totlen", prop: P::TotalLength, bit: 16, width: 16, kind: FKind::UInt, writable: true },
    Field { layer: "ipv4", name: "id", prop: P::Id, bit: 32, width: 16, kind: FKind::UInt, writable: true },
    Field { layer: "ipv4", name: "flags", prop: P::Flags, bit: 48, width: 3, kind: FKind::UInt, writable: true },
    Field { layer: "ipv4", name: "fragoff", prop: P::FragmentOffset, bit: 51, width: 13, kind: FKind::UInt, writable: true },
    Field { layer: "ipv4", name: "ttl", prop: P::Ttl, bit: 64, width: 8, kind: FKind::UInt, writable: true },
    Field { layer: "ipv4", name: "proto", prop: P::Protocol, bit: 72, width: 8, kind: FKind::UInt, writable: true },
    Field { layer: "ipv4", name: "checksum", prop: P::Checksum, bit: 80, width: 16, kind: FKind::UInt, writable: true },
    Field { layer: "ipv4", name: "src", prop: P::Src, bit: 96, width: 32, kind: FKind::Ip4, writable: true },
    Field { layer: "ipv4", name: "dst", prop: P::Dst, bit: 128, width: 32, kind: FKind::Ip4, writable: true },
    // IPv6 (RFC 8200)
    Field { layer: "ipv6", name: "version", prop: P::Version, bit: 0, width: 4, kind: FKind::UInt, writable: false },
    Field { layer: "ipv6", name: "trafficclass", prop: P::TrafficClass, bit: 4, width: 8, kind: FKind::UInt, writable: true },
    Field { layer: "ipv6", name: "flowlabel", prop: P::FlowLabel, bit: 12, width: 20, kind: FKind::UInt, writable: true },
    Field { layer: "ipv6", name: "len", prop: P::Length, bit: 32, width: 16, kind: FKind::UInt, writable: true },
    Field { layer: "ipv6", name: "nextheader", prop: P::NextHeader, bit: 48, width: 8, kind: FKind::UInt, writable: true },
    Field { layer: "ipv6", name: "hoplimit", prop: P::HopLimit, bit: 56, width: 8, kind: FKind::UInt, writable: true },
    Field { layer: "ipv6", name: "src", prop: P::Src, bit: 64, width: 128, kind: FKind::Ip6, writable: true },
    Field { layer: "ipv6", name: "dst", prop: P::Dst, bit: 192, width: 128, kind: FKind::Ip6, writable: true },
    // UDP (RFC 768)
    Field { layer: "udp", name: "srcport", prop: P::SrcPort, bit: 0, width: 16, kind: FKind::UInt, writable: true },
    Field { layer: "udp", name: "dstport", prop: P::DstPort, bit: 16, width: 16, kind: FKind::UInt, writable: true },
    Field { layer: "udp", name: "len", prop: P::Length, bit: 32, width: 16, kind: FKind::UInt, writable: true },
    Field { layer: "udp", name: "checksum", prop: P::Checksum, bit: 48, width: 16, kind: FKind::UInt, writable: true },
    // TCP (RFC 9293)
    Field { layer: "tcp", name: "srcport", prop: P::SrcPort, bit: 0, width: 16, kind: FKind::UInt, writable: true },
    Field { layer: "tcp", name: "dstport", prop: P::DstPort, bit: 16, width: 16, kind: FKind::UInt, writable: true },
    Field { layer: "tcp", name: "seq", prop: P::Sequence, bit: 32, width: 32, kind: FKind::UInt, writable: true },
    Field { layer: "tcp", name: "ack", prop: P::Ack, bit: 64, width: 32, kind: FKind::UInt, writable: true },
    Field { layer: "tcp", name: "dataoff", prop: P::DataOffset, bit: 96, width: 4, kind: FKind::UInt, writable: true },
    // RFC 9293: 4 reserved bits follow the data offset, then the 8 control bits
    Field { layer: "tcp", name: "flags", prop: P::Flags, bit: 104, width: 8, kind: FKind::UInt, writable: true },
    Field { layer: "tcp", name: "winsize", prop: P::WindowSize, bit: 112, width: 16, kind: FKind::UInt, writable: true },
    Field { layer: "tcp", name: "checksum", prop: P::Checksum, bit: 128, width: 16, kind: FKind::UInt, writable: true },
    Field { layer: "tcp", name: "urgent", prop: P::Urgent, bit: 144, width: 16, kind: FKind::UInt, writable: true },
];

pub fn fields_of(layer: &str) -> Vec<&'static Field> {
    FIELDS.iter().filter(|f| f.layer == layer).collect()
}

/// read `width` bits at bit offset `bit` of `hdr` (big-endian)
pub fn get_bits(hdr: &[u8], bit: usize, width: usize) -> u128 {
    let mut v: u128 = 0;
    for i in 0..width {
        let b = bit + i;
        let byte = hdr[b / 8];
        v = (v << 1) | ((byte >> (7 - b % 8)) & 1) as u128;
    }
    v
}
pub fn set_bits(hdr: &mut [u8], bit: usize, width: usize, val: u128) {
    for i in 0..width {
        let b = bit + i;
        let one = (val >> (width - 1 - i)) & 1;
        let mask = 1u8 << (7 - b % 8);
        if one == 1 {
            hdr[b / 8] |= mask;
        } else {
            hdr[b / 8] &= !mask;
        }
    }
}

pub fn mac_text(v: u128) -> String {
    let b = (v as u64).to_be_bytes();
    format!("{:02X}:{:02X}:{:02X}:{:02X}:{:02X}:{:02X}", b[2], b[3], b[4], b[5], b[6], b[7])
}

pub fn layer_of(o: &Object) -> &'static str {
    match o {
        Object::Packet(_) => "packet",
        Object::Eth(_) => "eth",
        Object::Vlan(_) => "vlan",
        Object::Ipv4(_) => "ipv4",
        Object::Ipv6(_) => "ipv6",
        Object::Udp(_) => "udp",
        Object::Tcp(_) => "tcp",
        Object::Err(_) => "error",
        Object::Null => "null",
        _ => "other",
    }
}

/// the cached inner object of a layer object, if any
pub fn inner_of(o: &Object) -> Option<Rc<Object>> {
    match o {
        Object::Packet(p) => p.inner.borrow().clone(),
        Object::Eth(p) => p.inner.borrow().clone(),
        Object::Vlan(p) => p.inner.borrow().clone(),
        Object::Ipv4(p) => p.inner.borrow().clone(),
        Object::Ipv6(p) => p.inner.borrow().clone(),
        Object::Udp(p) => p.inner.borrow().clone(),
        Object::Tcp(p) => p.inner.borrow().clone(),
        _ => None,
    }
}

/// the chain of cached layer kinds below a packet object
pub fn cache_chain(pkt: &Rc<Object>) -> Vec<&'static str> {
    let mut v = vec![];
    let mut cur = inner_of(pkt);
    while let Some(o) = cur {
        v.push(layer_of(&o));
        cur = inner_of(&o);
        if v.len() > 16 {
            break;
        }
    }
    v
}

/// the cached object at chain depth d (0 = the packet itself)
pub fn cached_at(pkt: &Rc<Object>, d: usize) -> Option<Rc<Object>> {
    let mut cur = pkt.clone();
    for _ in 0..d {
        cur = inner_of(&cur)?;
    }
    Some(cur)
}
