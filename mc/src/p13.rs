//! C13 — runtime errors report the source line of the failing operation.
//! Every failing construct x every sequence of <=3 preceding items (of 1-3 lines each) x context.

use crate::fw::*;
use crate::subject::*;
use serde_json::{json, Value};

const PRELUDE: &str = "let zero = 0; let arr = [1]; let m = map {1: 1}; let s = \"a\"; fn f1(p) { p }";

/// single-line failing constructs (name, text)
const CONSTRUCTS: &[(&str, &str)] = &[
    ("div-by-zero", "1 / zero"),
    ("mod-by-zero", "1 % zero"),
    ("index-out-of-range", "arr[5]"),
    ("negative-index", "arr[0 - 1]"),
    ("missing-key", "m[2]"),
    ("invalid-key", "m[map {}]"),
    ("set-index-out-of-range", "arr[7] = 1"),
    ("bad-operands-binary", "1 + s"),
    ("bad-operands-relational", "s < 1"),
    ("bad-operand-unary-minus", "-s"),
    ("bad-operand-bitwise-not", "~s"),
    ("bad-operands-bitwise", "1 & s"),
    ("bad-operands-shift", "1 << s"),
    ("call-non-function", "zero()"),
    ("wrong-arity", "f1(1, 2)"),
    ("failing-builtin", "len(1)"),
    ("builtin-wrong-arity", "len()"),
    ("failing-builtin-nested", "1 + len(first(arr))"),
    ("property-on-non-packet", "zero.src"),
    ("dollar-non-integer", "$s"),
    ("array-minus-array", "arr - arr"),
    ("negative-repeat", "s * (0 - 1)"),
    ("map-literal-invalid-key", "map {m: 1}"),
];

/// preceding items: (text, number of lines)
const ITEMS: &[(&str, usize)] = &[
    ("", 1),
    ("# comment", 1),
    ("// comment", 1),
    ("let q = 1;", 1),
    ("fn pre(a) {\n  a + 1\n}", 3),
    ("if zero == 1 {\n  2\n}", 3),
    ("let t = \"x\ny\";", 2),
    ("@ false { }", 1),
    ("let u = [1,\n  2];", 2),
    // a newline inside a char / byte literal, and a CRLF line ending
    ("let nc = '\n';", 2),
    ("let nb = b'\n';", 2),
    ("let cr = 3;\r", 1),
    // branches ending in expression statements (the compiler rewrites the instruction stream there)
    ("if zero == 0 { 1 } else { 2 };", 1),
    ("match zero { 0 => 1, 1 => { 2 } _ => 3 };", 1),
];

const CONTEXTS: &[&str] = &["top", "function", "closure", "block", "nested-function", "if-branch", "loop"];

pub struct P13 {
    nseq: u64,
    maxlen: u32,
    e2e: Vec<(usize, usize)>,
}
impl P13 {
    pub fn new(tier: Tier) -> P13 {
        let e2e = if std::path::Path::new(&bin_path()).exists() {
            // filter-action context through the binary: every construct x a few line offsets
            let mut v = vec![];
            for c in 0..CONSTRUCTS.len() {
                for k in tier.pick(vec![0usize, 6], vec![0, 1, 4, 6, 7]) {
                    v.push((c, k));
                }
            }
            v
        } else {
            vec![]
        };
        P13 { nseq: strings_upto(ITEMS.len() as u64, tier.pick(3, 4)), maxlen: tier.pick(3, 4), e2e }
    }
    fn n_inproc(&self) -> u64 {
        self.nseq * CONSTRUCTS.len() as u64 * CONTEXTS.len() as u64
    }
    /// returns (program text, expected line, class)
    fn build(&self, idx: u64) -> (String, usize, String) {
        let v = unrank(idx, &[CONTEXTS.len() as u64, CONSTRUCTS.len() as u64, self.nseq]);
        let (ctx, con) = (CONTEXTS[v[0] as usize], CONSTRUCTS[v[1] as usize]);
        let seq = unrank_string(v[2], ITEMS.len() as u64, self.maxlen);
        let mut src = String::from(PRELUDE);
        src.push('\n');
        let mut line = 2; // next free line
        for i in &seq {
            let (t, n) = ITEMS[*i as usize];
            src.push_str(t);
            src.push('\n');
            line += n;
        }
        let c = con.1;
        let expected;
        match ctx {
            "top" => {
                expected = line;
                src.push_str(&format!("{};\n", c));
            }
            "function" => {
                expected = line + 1;
                src.push_str(&format!("fn ff() {{\n  {};\n}}\nlet pad = 1;\nff();\n", c));
            }
            "closure" => {
                expected = line + 2;
                src.push_str(&format!("let cl = fn() {{\n  let w = 1;\n  {};\n}};\n\ncl();\n", c));
            }
            "block" => {
                expected = line + 1;
                src.push_str(&format!("{{\n  {};\n}}\n", c));
            }
            "nested-function" => {
                expected = line + 2;
                src.push_str(&format!("fn outer() {{\n  let inner = fn() {{\n    {};\n  }};\n  inner();\n}}\nouter();\n", c));
            }
            "if-branch" => {
                expected = line + 3;
                src.push_str(&format!("if zero == 0 {{\n  let w = 1;\n\n  {};\n}} else {{\n  2;\n}}\n", c));
            }
            _ => {
                expected = line + 2;
                src.push_str(&format!("let i = 0;\nwhile i < 3 {{\n  if i == 2 {{ {}; }}\n  i = i + 1;\n}}\n", c));
            }
        }
        (src, expected, format!("{} in {}", con.0, ctx))
    }
}

impl Property for P13 {
    fn id(&self) -> &'static str {
        "C13"
    }
    fn len(&self) -> u64 {
        self.n_inproc() + self.e2e.len() as u64
    }
    fn describe(&self, idx: u64) -> Value {
        if idx < self.n_inproc() {
            let (src, line, class) = self.build(idx);
            json!({"case": class, "expected_line": line, "source": src})
        } else {
            let (c, k) = self.e2e[(idx - self.n_inproc()) as usize];
            json!({"case": format!("{} in filter action (binary)", CONSTRUCTS[c].0), "blank_lines_before": k})
        }
    }
    fn run(&self, idx: u64) -> CaseOut {
        if idx >= self.n_inproc() {
            let (c, k) = self.e2e[(idx - self.n_inproc()) as usize];
            let con = CONSTRUCTS[c];
            let mut src = String::from(PRELUDE);
            src.push('\n');
            for _ in 0..k {
                src.push_str("# pad\n");
            }
            src.push_str(&format!("@ true {{\n  let w = 1;\n  {};\n}}\n", con.1));
            let expected = 2 + k + 2;
            let dir = scratch_dir("c13");
            let path = dir.join("f.p2");
            std::fs::write(&path, &src).unwrap();
            let o = run_bin(&["-s", path.to_str().unwrap()], &crate::p06::one_packet_pcap(), &[], 10);
            let err = o.err_s();
            let class = format!("{} in filter-action", con.0);
            if o.crashed() {
                return CaseOut::viol(format!("{} crash", class), format!("binary crashed: {}\n{}", one_line(&err, 200), src));
            }
            let want = format!("[line {}] Runtime error", expected);
            return if err.contains(&want) {
                CaseOut::pass(class)
            } else {
                CaseOut::viol(format!("{} wrong-line", class), format!("expected '{}' on stderr, got: {}\n{}", want, one_line(&err, 200), src))
            };
        }
        let (src, expected, class) = self.build(idx);
        match guarded(|| run_src(&src).outcome) {
            Err(m) => CaseOut::viol(format!("{} panic", class), format!("panicked: {}\n{}", m, src)),
            Ok(Outcome::RtErr(msg, line)) => {
                if line == expected {
                    CaseOut::pass(class)
                } else {
                    CaseOut::viol(
                        format!("{} wrong-line", class),
                        format!("runtime error '{}' reported at line {} but the failing construct is on line {}\n{}", msg, line, expected, src),
                    )
                }
            }
            Ok(o) => CaseOut::viol(format!("{} no-error", class), format!("expected a runtime error, got {:?}\n{}", o, src)),
        }
    }
    fn rule(&self) -> String {
        format!("{} single-line failing constructs x every sequence of <=3 (thorough 4) preceding items from {:?} (blank line, # and // comments, a let, a 3-line function, a 3-line if, a string literal and an array literal spanning two lines, a filter statement) x contexts {:?} (in-process: RTError.line) plus the filter-action context through the binary ('[line N] Runtime error' on stderr); the expected line is the line on which the harness placed the construct", CONSTRUCTS.len(), ITEMS.iter().map(|i| i.0.replace('\n', "\\n")).collect::<Vec<_>>(), CONTEXTS)
    }
    fn bounds(&self) -> Value {
        json!({"constructs": CONSTRUCTS.len(), "preceding_sequences": self.nseq, "contexts": CONTEXTS.len(), "filter_action_runs": self.e2e.len()})
    }
    fn assumptions(&self) -> Vec<String> {
        vec!["CRLF line terminators are not generated (the statement does not mention them)".into(),
             "constructs spanning several lines are outside the property".into()]
    }
}
