//! Reference value model and operator semantics, transcribed from the property statements
//! (C06 truthiness, C09 numeric/typing model, C10 key equality) — not from the implementation.

use std::cell::RefCell;
use std::rc::Rc;

#[derive(Clone, Debug)]
pub enum V {
    Null,
    Bool(bool),
    Int(i64),
    Float(f64),
    Byte(u8),
    Char(char),
    Str(String),
    Arr(Rc<RefCell<Vec<V>>>),
    /// association list keyed by value equality, in first-insertion order
    Map(Rc<RefCell<Vec<(V, V)>>>),
    /// closure: index into the evaluator's closure table
    Clos(usize),
    Builtin(&'static str),
    /// error object (is_error)
    ErrObj,
}

#[derive(Clone, Debug, PartialEq)]
pub enum Unspec {
    /// the statement does not say what this combination does
    Unspecified(&'static str),
}

/// Result of a reference operation: a value, a runtime error, or "the statement is silent".
#[derive(Clone, Debug)]
pub enum R {
    Ok(V),
    Err,
    Unspecified(&'static str),
}

pub fn arr(v: Vec<V>) -> V {
    V::Arr(Rc::new(RefCell::new(v)))
}
pub fn map(v: Vec<(V, V)>) -> V {
    V::Map(Rc::new(RefCell::new(v)))
}

impl V {
    pub fn kind(&self) -> &'static str {
        match self {
            V::Null => "null",
            V::Bool(_) => "bool",
            V::Int(_) => "int",
            V::Float(_) => "float",
            V::Byte(_) => "byte",
            V::Char(_) => "char",
            V::Str(_) => "str",
            V::Arr(_) => "array",
            V::Map(_) => "map",
            V::Clos(_) => "closure",
            V::Builtin(_) => "builtin",
            V::ErrObj => "error",
        }
    }
    /// C06 truthiness table
    pub fn falsey(&self) -> bool {
        match self {
            V::Null => true,
            V::Bool(b) => !*b,
            V::Int(i) => *i == 0,
            V::Float(f) => *f == 0.0,
            V::Byte(b) => *b == 0,
            V::Char(c) => *c == '\0',
            V::Str(s) => s.is_empty(),
            V::Arr(a) => a.borrow().is_empty(),
            V::Map(m) => m.borrow().is_empty(),
            V::Clos(_) | V::Builtin(_) | V::ErrObj => false,
        }
    }
    /// same rendering as subject::canon for the value kinds both sides have
    pub fn canon(&self) -> String {
        match self {
            V::Null => "null".into(),
            V::Bool(b) => format!("{}", b),
            V::Int(i) => format!("i{}", i),
            V::Float(f) => crate::subject::canon_f64(*f),
            V::Byte(b) => format!("y{}", b),
            V::Char(c) => format!("c{:?}", c),
            V::Str(s) => format!("s{:?}", s),
            V::Arr(a) => {
                let v: Vec<String> = a.borrow().iter().map(|e| e.canon()).collect();
                format!("[{}]", v.join(","))
            }
            V::Map(m) => {
                let mut v: Vec<String> =
                    m.borrow().iter().map(|(k, v)| format!("{}=>{}", k.canon(), v.canon())).collect();
                v.sort();
                format!("{{{}}}", v.join(","))
            }
            V::Clos(_) => "<closure>".into(),
            V::Builtin(n) => format!("<builtin {}>", n),
            V::ErrObj => "<error>".into(),
        }
    }
    /// source text that evaluates to this value (for kinds that have one)
    pub fn to_src(&self) -> String {
        match self {
            V::Null => "null".into(),
            V::Bool(b) => format!("{}", b),
            V::Int(i) => {
                if *i == i64::MIN {
                    "(-9223372036854775807 - 1)".into()
                } else if *i < 0 {
                    format!("(-{})", -(*i as i128))
                } else {
                    format!("{}", i)
                }
            }
            V::Float(f) => {
                if f.is_nan() {
                    "float(\"NaN\")".into()
                } else if f.is_infinite() {
                    if *f > 0.0 { "float(\"inf\")".into() } else { "float(\"-inf\")".into() }
                } else if *f == 0.0 && f.is_sign_negative() {
                    "(-0.0)".into()
                } else if *f < 0.0 {
                    format!("(-{:?})", -f)
                } else {
                    let s = format!("{:?}", f);
                    if s.contains('e') && !s.contains('.') { format!("float(\"{}\")", s) } else { s }
                }
            }
            V::Byte(b) => format!("byte({})", b),
            V::Char(c) => {
                if *c == '\0' || *c == '\'' || *c == '\n' {
                    format!("char({})", *c as u32)
                } else {
                    format!("'{}'", c)
                }
            }
            V::Str(s) => format!("\"{}\"", s),
            V::Arr(a) => format!("[{}]", a.borrow().iter().map(|e| e.to_src()).collect::<Vec<_>>().join(", ")),
            V::Map(m) => format!(
                "map {{{}}}",
                m.borrow().iter().map(|(k, v)| format!("{}: {}", k.to_src(), v.to_src())).collect::<Vec<_>>().join(", ")
            ),
            V::Clos(_) => "fn() { 1 }".into(),
            V::Builtin(n) => n.to_string(),
            V::ErrObj => "open(\"/nonexistent/p2sh-verif\")".into(),
        }
    }
}

/// Value equality (`==`): same kind and equal content; int/float compare numerically as doubles.
/// `None` = the statement is silent (byte vs int/float).
pub fn eq(a: &V, b: &V) -> Option<bool> {
    Some(match (a, b) {
        (V::Null, V::Null) => true,
        (V::Bool(x), V::Bool(y)) => x == y,
        (V::Int(x), V::Int(y)) => x == y,
        (V::Float(x), V::Float(y)) => x == y,
        (V::Int(x), V::Float(y)) => (*x as f64) == *y,
        (V::Float(x), V::Int(y)) => *x == (*y as f64),
        (V::Byte(x), V::Byte(y)) => x == y,
        (V::Byte(_), V::Int(_) | V::Float(_)) | (V::Int(_) | V::Float(_), V::Byte(_)) => return None,
        (V::Char(x), V::Char(y)) => x == y,
        (V::Str(x), V::Str(y)) => x == y,
        (V::Arr(x), V::Arr(y)) => {
            let (x, y) = (x.borrow(), y.borrow());
            if x.len() != y.len() {
                false
            } else {
                let mut all = true;
                for (p, q) in x.iter().zip(y.iter()) {
                    match eq(p, q) {
                        Some(true) => {}
                        Some(false) => {
                            all = false;
                            break;
                        }
                        None => return None,
                    }
                }
                all
            }
        }
        (V::Map(x), V::Map(y)) => {
            let (x, y) = (x.borrow(), y.borrow());
            if x.len() != y.len() {
                false
            } else {
                let mut all = true;
                for (k, v) in x.iter() {
                    let mut found = false;
                    for (k2, v2) in y.iter() {
                        if eq(k, k2)? {
                            found = eq(v, v2)?;
                            break;
                        }
                    }
                    if !found {
                        all = false;
                        break;
                    }
                }
                all
            }
        }
        (V::Builtin(x), V::Builtin(y)) => x == y,
        (V::Clos(_), V::Clos(_)) => return None,
        (V::ErrObj, V::ErrObj) => return None,
        _ => false,
    })
}

fn num(v: &V) -> Option<f64> {
    match v {
        V::Int(i) => Some(*i as f64),
        V::Float(f) => Some(*f),
        V::Byte(b) => Some(*b as f64),
        _ => None,
    }
}
fn is_zero(v: &V) -> bool {
    match v {
        V::Int(i) => *i == 0,
        V::Float(f) => *f == 0.0,
        V::Byte(b) => *b == 0,
        _ => false,
    }
}

pub const BINOPS: &[&str] =
    &["+", "-", "*", "/", "%", "<<", ">>", "&", "|", "^", "==", "!=", "<", ">", "<=", ">="];
pub const UNOPS: &[&str] = &["-", "!", "~"];

/// The C09 model of a binary operator application.
pub fn binop(op: &str, a: &V, b: &V) -> R {
    match op {
        "==" => match eq(a, b) {
            Some(x) => R::Ok(V::Bool(x)),
            None => R::Unspecified("equality between these kinds is not specified"),
        },
        "!=" => match eq(a, b) {
            Some(x) => R::Ok(V::Bool(!x)),
            None => R::Unspecified("equality between these kinds is not specified"),
        },
        "+" | "-" | "*" | "/" | "%" => arith(op, a, b),
        "<<" | ">>" | "&" | "|" | "^" => match (a, b) {
            (V::Int(x), V::Int(y)) => R::Ok(V::Int(match op {
                "<<" => x.wrapping_shl((*y as u64 & 63) as u32),
                ">>" => x.wrapping_shr((*y as u64 & 63) as u32),
                "&" => x & y,
                "|" => x | y,
                _ => x ^ y,
            })),
            (V::Byte(_), V::Byte(_) | V::Int(_)) | (V::Int(_), V::Byte(_)) => {
                R::Unspecified("bitwise/shift operators on bytes are not specified")
            }
            _ => R::Err,
        },
        "<" | ">" | "<=" | ">=" => {
            let ord: Option<std::cmp::Ordering> = match (a, b) {
                (V::Int(x), V::Int(y)) => Some(x.cmp(y)),
                (V::Int(_) | V::Float(_), V::Int(_) | V::Float(_)) => {
                    let (x, y) = (num(a).unwrap(), num(b).unwrap());
                    match x.partial_cmp(&y) {
                        Some(o) => Some(o),
                        None => return R::Ok(V::Bool(false)), // NaN: every ordered comparison is false
                    }
                }
                (V::Byte(x), V::Byte(y)) => Some(x.cmp(y)),
                (V::Byte(_), V::Int(_) | V::Float(_)) | (V::Int(_) | V::Float(_), V::Byte(_)) => {
                    return R::Unspecified("ordering between a byte and an integer/float is not specified")
                }
                (V::Str(x), V::Str(y)) => Some(x.as_str().cmp(y.as_str())),
                (V::Char(x), V::Char(y)) => Some(x.cmp(y)),
                _ => None,
            };
            match ord {
                None => R::Err,
                Some(o) => R::Ok(V::Bool(match op {
                    "<" => o.is_lt(),
                    ">" => o.is_gt(),
                    "<=" => o.is_le(),
                    _ => o.is_ge(),
                })),
            }
        }
        _ => R::Err,
    }
}

fn arith(op: &str, a: &V, b: &V) -> R {
    match (a, b) {
        (V::Int(x), V::Int(y)) => int_arith(op, *x, *y),
        (V::Byte(x), V::Byte(y)) => {
            if (op == "/" || op == "%") && *y == 0 {
                return R::Err;
            }
            R::Ok(V::Byte(match op {
                "+" => x.wrapping_add(*y),
                "-" => x.wrapping_sub(*y),
                "*" => x.wrapping_mul(*y),
                "/" => x / y,
                _ => x % y,
            }))
        }
        (V::Int(x), V::Byte(y)) => int_arith(op, *x, *y as i64),
        (V::Byte(x), V::Int(y)) => int_arith(op, *x as i64, *y),
        (V::Int(_) | V::Float(_) | V::Byte(_), V::Int(_) | V::Float(_) | V::Byte(_)) => {
            // at least one float
            if (op == "/" || op == "%") && is_zero(b) {
                return R::Err;
            }
            let (x, y) = (num(a).unwrap(), num(b).unwrap());
            R::Ok(V::Float(match op {
                "+" => x + y,
                "-" => x - y,
                "*" => x * y,
                "/" => x / y,
                _ => x % y,
            }))
        }
        (V::Str(x), V::Str(y)) if op == "+" => R::Ok(V::Str(format!("{}{}", x, y))),
        (V::Char(x), V::Char(y)) if op == "+" => R::Ok(V::Str(format!("{}{}", x, y))),
        (V::Arr(x), V::Arr(y)) if op == "+" => {
            let mut v = x.borrow().clone();
            v.extend(y.borrow().iter().cloned());
            R::Ok(arr(v))
        }
        (V::Str(s), V::Int(n)) if op == "*" => {
            if *n < 0 {
                R::Err
            } else if (s.len() as u128) * (*n as u128) > (1 << 26) {
                R::Unspecified("result larger than the memory exclusion")
            } else {
                R::Ok(V::Str(s.repeat(*n as usize)))
            }
        }
        (V::Int(_), V::Str(_)) if op == "*" => R::Unspecified("integer * string is not specified (only string * integer)"),
        _ => R::Err,
    }
}

fn int_arith(op: &str, x: i64, y: i64) -> R {
    if (op == "/" || op == "%") && y == 0 {
        return R::Err;
    }
    R::Ok(V::Int(match op {
        "+" => x.wrapping_add(y),
        "-" => x.wrapping_sub(y),
        "*" => x.wrapping_mul(y),
        "/" => x.wrapping_div(y),
        _ => x.wrapping_rem(y),
    }))
}

pub fn unop(op: &str, a: &V) -> R {
    match op {
        "!" => R::Ok(V::Bool(a.falsey())),
        "-" => match a {
            V::Int(x) => R::Ok(V::Int(x.wrapping_neg())),
            V::Float(f) => R::Ok(V::Float(-f)),
            _ => R::Err,
        },
        "~" => match a {
            V::Int(x) => R::Ok(V::Int(!x)),
            V::Byte(_) => R::Unspecified("bitwise operators on bytes are not specified"),
            _ => R::Err,
        },
        _ => R::Err,
    }
}

/// Convert a reference value into a real object of the implementation (for injecting operands).
pub fn to_object(v: &V) -> Rc<crate::object::Object> {
    use crate::object::array::Array;
    use crate::object::hmap::HMap;
    use crate::object::Object;
    Rc::new(match v {
        V::Null => Object::Null,
        V::Bool(b) => Object::Bool(*b),
        V::Int(i) => Object::Integer(*i),
        V::Float(f) => Object::Float(*f),
        V::Byte(b) => Object::Byte(*b),
        V::Char(c) => Object::Char(*c),
        V::Str(s) => Object::Str(s.clone()),
        V::Arr(a) => Object::Arr(Rc::new(Array::new(a.borrow().iter().map(to_object).collect()))),
        V::Map(m) => {
            let h = HMap::default();
            for (k, v) in m.borrow().iter() {
                h.insert(to_object(k), to_object(v));
            }
            Object::Map(Rc::new(h))
        }
        V::Builtin(n) => {
            let b = crate::builtins::functions::BUILTINFNS.iter().find(|b| b.name == *n).expect("builtin");
            Object::Builtin(Rc::new(b.clone()))
        }
        V::Clos(_) => {
            use crate::object::func::{Closure, CompiledFunction};
            let f = CompiledFunction::new(crate::code::definitions::Instructions::default(), 0, 0, 1);
            Object::Clos(Rc::new(Closure::new(Rc::new(f), vec![])))
        }
        V::ErrObj => Object::Err(crate::object::error::ErrorObj::IO(std::io::Error::new(
            std::io::ErrorKind::NotFound,
            "verif",
        ))),
    })
}
