//! C23 — the REPL accumulates state like one program; rejected lines have no effect.
//! Every history of lines over a small alphabet is one run of the real `run_prompt` loop (scripted line
//! source hook) fed with exactly those lines and nothing else; the oracle is differential, as the statement
//! is phrased: line n must print what the script "all earlier accepted lines (each up to its first runtime
//! error) + line n" leaves as its value.

use crate::fw::*;
use crate::subject::*;
use serde_json::{json, Value};

/// (line, what remains of it when it stops at its runtime error)
const LINES: &[(&str, &str)] = &[
    ("let x = 1", ""),
    ("x", ""),
    ("x = x + 1", ""),
    ("fn f() { x }", ""),
    ("f()", ""),
    ("let x = nosuch", ""),                                 // compile error that would redefine x
    ("fn g() { nosuch }", ""),                              // compile error inside a function body
    ("fn h() { \"hh\" } let z = 1 / 0;", "fn h() { \"hh\" }"), // runtime error after a definition
    ("h()", ""),
    ("let len = 5", ""), // shadows a builtin
    ("len", ""),
    ("\"zz\"", ""), // a line that only adds a constant
    // -- the rest only in the full alphabet
    ("let x = 2", ""),
    ("let a = [x, \"s\"]; a", ""),
    ("let y = ", ""),  // parse error
    ("break", ""),     // compile error
    ("let q = 7; 1 / 0; let r = 8", "let q = 7;"),
    ("[1][5]", ""),
    ("q", ""),
    ("fn f() { 99 }", ""),
    ("1 / 0; let x = 7", ""), // fails before it would rebind x: the earlier x must survive
    ("fn f() { 1", ""),       // a block still open at the end of the line
    ("let x = [10, 20][5]", ""), // a let whose own initialiser fails: x keeps its earlier binding, or stays undefined
    // -- only in the slot family: a statement that stores closures over its own variable and then fails
    ("let r = [0, 0]", ""),
    // (the stored closure uses a literal of its own: the failing line's constants must outlive the failure)
    ("{ let s = 1; r[0] = fn() { [s, 100, \"in\"] }; r[1] = fn(v) { s = v }; 1 / 0 }", "{ let s = 1; r[0] = fn() { [s, 100, \"in\"] }; r[1] = fn(v) { s = v }; }"),
    ("let u = 7; let t = \"out\"", ""),
    ("r[0]()", ""),
    ("r[1](99)", ""),
    ("u", ""),
];
const CORE: usize = 12;
/// the alphabet of the general families
const FULL: usize = 23;
/// the slot family: the lines above
const SLOT: [usize; 6] = [23, 24, 25, 26, 27, 28];

pub struct P23 {
    cases: Vec<Vec<usize>>,
}
impl P23 {
    pub fn new(tier: Tier) -> P23 {
        let mut cases = vec![];
        let full = FULL;
        // leaves only: every prefix of a history is checked on the way
        let (l_full, l_core) = tier.pick((2u32, 3u32), (3, 4));
        for idx in 0..(full as u64).pow(l_full) {
            cases.push(unrank(idx, &vec![full as u64; l_full as usize]).iter().map(|x| *x as usize).collect());
        }
        for idx in 0..(CORE as u64).pow(l_core) {
            cases.push(unrank(idx, &vec![CORE as u64; l_core as usize]).iter().map(|x| *x as usize).collect());
        }
        let l_slot = tier.pick(4u32, 5u32);
        for idx in 0..(SLOT.len() as u64).pow(l_slot) {
            cases.push(unrank(idx, &vec![SLOT.len() as u64; l_slot as usize]).iter().map(|x| SLOT[*x as usize]).collect());
        }
        if tier == Tier::Thorough {
            // long histories: every line of the alphabet after a fixed warm-up, twice
            for a in 0..full {
                for b in 0..full {
                    cases.push(vec![0, 3, 7, 9, a, 5, 8, 10, b, 1, 4, 8]);
                }
            }
        }
        P23 { cases }
    }
}

/// what the model expects of one line
enum Expect {
    /// rejected by the parser: any number of lines ending with "<n> parse errors"
    ParseErr,
    /// rejected by the compiler: one line on stderr
    CompileErr,
    /// accepted: this echo on stdout ("" or one line), nothing on stderr
    Value(String),
    /// stops at run time: one line on stderr carrying this message, nothing on stdout
    RtErr(String),
}

impl Property for P23 {
    fn id(&self) -> &'static str {
        "C23"
    }
    fn len(&self) -> u64 {
        self.cases.len() as u64
    }
    fn describe(&self, idx: u64) -> Value {
        json!({"repl_lines": self.cases[idx as usize].iter().map(|i| LINES[*i].0).collect::<Vec<_>>()})
    }
    fn run(&self, idx: u64) -> CaseOut {
        let hist = &self.cases[idx as usize];
        // exactly the lines of the history: nothing is interleaved that could itself change the REPL's state
        let mut input = String::new();
        for l in hist {
            input.push_str(LINES[*l].0);
            input.push('\n');
        }
        let o = run_bin(&[], input.as_bytes(), &[("P2SH_VERIF_REPL_STDIN", "1")], 20);
        let lines_txt: Vec<&str> = hist.iter().map(|i| LINES[*i].0).collect();
        if o.crashed() {
            return CaseOut::viol("crash", format!("the REPL crashed or hung on {:?}: {}", lines_txt, one_line(&o.err_s(), 200)));
        }
        let out = o.out_s();
        // banner: two lines; trailer: "\nExiting...\n"
        let body = match out.splitn(3, '\n').nth(2) {
            Some(b) => b.to_string(),
            None => return CaseOut::viol("MACHINERY", format!("MACHINERY: no REPL banner in {:?}", out)),
        };
        let body = match body.strip_suffix("\nExiting...\n") {
            Some(b) => b.to_string(),
            None => return CaseOut::viol("MACHINERY", format!("MACHINERY: no REPL trailer in {:?}", out)),
        };
        let err_text = o.err_s();
        let mut out_lines = body.lines().peekable();
        let mut err_lines = err_text.lines().peekable();
        // the model: the script of everything accepted so far
        let mut effective = String::new();
        let mut states = 0;
        for (n, l) in hist.iter().enumerate() {
            let (line, rt_rest) = LINES[*l];
            let src = format!("{}{}\n", effective, line); // earlier lines end in ";"
            let r = run_src(&src);
            states += 1;
            let ctx = |effective: &str| format!("line {} of {:?} (script of the accepted lines so far: {:?})", n + 1, lines_txt, one_line(effective, 300));
            let exp = match r.outcome {
                Outcome::ParseErr => Expect::ParseErr,
                Outcome::CompileErr => Expect::CompileErr,
                Outcome::Value(_) => {
                    let mut vm = r.vm.unwrap();
                    let v = vm.last_popped();
                    // as in command mode (C24): the echo is the value of the line's final expression statement
                    let ends_in_expr = matches!(parse_only(line).0.statements.last(), Some(crate::parser::ast::stmt::Statement::Expr(_)));
                    Expect::Value(if !ends_in_expr || matches!(v.as_ref(), crate::object::Object::Null) { String::new() } else { format!("{}", v) })
                }
                Outcome::RtErr(msg, _) => Expect::RtErr(msg),
            };
            match exp {
                Expect::ParseErr => {
                    let mut ok = false;
                    while let Some(e) = err_lines.next() {
                        if e.ends_with("parse errors") || e.ends_with("parse error") {
                            ok = true;
                            break;
                        }
                    }
                    if !ok {
                        return CaseOut::viol("rejected-line accepted", format!("{}: the parser rejects this line, but the REPL reported no parse errors: stdout {:?} stderr {:?}", ctx(&effective), one_line(&body, 200), one_line(&err_text, 200)));
                    }
                }
                Expect::CompileErr => match err_lines.next() {
                    Some(e) if e.contains("compile error") => {}
                    other => {
                        return CaseOut::viol(
                            "rejected-line accepted",
                            format!("{}: the script with this line appended is rejected by the compiler, but the REPL's next diagnostic is {:?} (stdout so far {:?})", ctx(&effective), other, one_line(&body, 200)),
                        )
                    }
                },
                Expect::Value(echo) => {
                    // (a diagnostic wrongly printed for this line shows up as a leftover or a mismatch further on)
                    if !echo.is_empty() {
                        match out_lines.next() {
                            Some(g) if g == echo => {}
                            other => {
                                return CaseOut::viol(
                                    "different value",
                                    format!("{}: the REPL printed {:?}; at the end of the script the line prints {:?} (whole stdout {:?}, stderr {:?})", ctx(&effective), other, echo, one_line(&body, 200), one_line(&err_text, 200)),
                                )
                            }
                        }
                    }
                    effective.push_str(line.trim_end_matches(';'));
                    effective.push_str(if line.ends_with('}') { "\n" } else { ";\n" });
                }
                Expect::RtErr(msg) => {
                    match err_lines.next() {
                        Some(e) if e.contains("Runtime error") && e.contains(&msg) => {}
                        other => {
                            return CaseOut::viol(
                                "runtime-error line",
                                format!("{}: the script stops with {:?}; the REPL's next diagnostic is {:?} (stdout {:?})", ctx(&effective), msg, other, one_line(&body, 200)),
                            )
                        }
                    }
                    if !rt_rest.is_empty() {
                        effective.push_str(rt_rest.trim_end_matches(';'));
                        effective.push_str(if rt_rest.ends_with('}') { "\n" } else { ";\n" });
                    }
                }
            }
        }
        // nothing may be left over on either stream
        if let Some(x) = out_lines.next() {
            return CaseOut::viol("different value", format!("{:?}: the REPL printed {:?} on stdout beyond what the script prints (whole stdout {:?}, stderr {:?})", lines_txt, x, one_line(&body, 200), one_line(&err_text, 200)));
        }
        if let Some(x) = err_lines.next() {
            return CaseOut::viol("accepted-line rejected", format!("{:?}: the REPL printed the diagnostic {:?} although every remaining line is accepted by the script (stdout {:?}, stderr {:?})", lines_txt, x, one_line(&body, 200), one_line(&err_text, 200)));
        }
        let class = format!("accepted={}", effective.lines().count().min(4));
        CaseOut::pass(class).with_counts(states, hist.len() as u64, 1)
    }
    fn rule(&self) -> String {
        format!("line alphabet {:?} (the first {} form the core, the last 6 belong to the slot family only); histories: every sequence of exactly 2 (thorough 3) lines over the full alphabet and of exactly 3 (thorough 4) lines over the core (prefixes are checked on the way), and of exactly 4 (thorough 5) lines over the 6-line slot family (a statement that stores closures over its own block variable and then fails, later definitions, calls of the stored closures), thorough adds 12-line histories with every pair of lines at two positions; each history is one run of the real run_prompt loop through the scripted line source, fed with exactly these lines (no marker lines: an interleaved line would itself be an accepted line and could repair the very state under test); oracle per line n: compile and run, in-process with the same compiler and VM, the script made of the accepted lines so far (a line that failed at run time contributes its statements before the failure) plus line n: the two output streams are consumed in order — rejected by the parser => diagnostics up to '<n> parse errors' on stderr; rejected by the compiler => exactly one 'compile error' line; value v => v's display text as the next stdout line when the line ends in an expression statement and v is not null (the echo rule of command mode), nothing otherwise; runtime error => one 'Runtime error' line with the same message; nothing may be left over on either stream", LINES.iter().map(|l| l.0).collect::<Vec<_>>(), CORE)
    }
    fn bounds(&self) -> Value {
        json!({"histories": self.cases.len(), "alphabet": FULL, "core": CORE, "slot_family": SLOT.len()})
    }
    fn assumptions(&self) -> Vec<String> {
        vec![
            "lines reach run_prompt through the cfg(p2sh_verif) scripted line source; the interactive editor (continuation lines, history, completion) is not driven".into(),
            "a name that only a statement after the failing statement of a line would have bound is read only where an earlier binding of it exists (which must survive); with no earlier binding the script does not compile and the comparison is void".into(),
            "every echo of the alphabet is a single line, so stdout lines map to lines of the history in order".into(),
        ]
    }
    fn horizon_secs(&self) -> u64 {
        60
    }
}
