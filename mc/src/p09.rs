//! C09 — operators implement a consistent numeric and typing model.
//! Exhaustive over operator x ordered pairs of boundary operand values; operands are injected
//! into the VM's globals as real objects so that literal parsing is not in the way.

use crate::compiler::Compiler;
use crate::fw::*;
use crate::refval::*;
use crate::subject::*;
use crate::vm::interpreter::VM;
use serde_json::{json, Value};

pub fn operand_values(tier: Tier) -> Vec<V> {
    let p53 = 1i64 << 53;
    let mut v = vec![];
    for i in [0, 1, -1, 2, 63, 64, 65, -64, i64::MIN, i64::MIN + 1, i64::MAX, p53, p53 + 1] {
        v.push(V::Int(i));
    }
    for f in [0.0, -0.0, 1.5, -1.5, f64::INFINITY, f64::NEG_INFINITY, f64::NAN, p53 as f64, 1e308] {
        v.push(V::Float(f));
    }
    for b in [0u8, 1, 127, 128, 255] {
        v.push(V::Byte(b));
    }
    if tier == Tier::Thorough {
        for i in [3, 7, 8, -2, -63, -65, 127, 128, 255, 256, 1 << 31, (1 << 31) - 1, 1 << 32, 1 << 62, i64::MAX - 1, -(1 << 53), 1_000_000_007] {
            v.push(V::Int(i));
        }
        for f in [0.5, 2.0, 64.0, -64.0, 5e-324, 1e-300, 9.223372036854775807e18, -9.223372036854775808e18, 4294967296.0, 0.1, 1e17] {
            v.push(V::Float(f));
        }
        for b in [2u8, 8, 16, 254] {
            v.push(V::Byte(b));
        }
        for s in ["b", "aa", "A", "é€"] {
            v.push(V::Str(s.into()));
        }
        v.push(V::Char('A'));
        v.push(V::Char('€'));
        v.push(arr(vec![V::Float(1.0)]));
        v.push(arr(vec![arr(vec![])]));
    }
    v.push(V::Bool(true));
    v.push(V::Bool(false));
    v.push(V::Null);
    for s in ["", "a", "ab", "ü"] {
        v.push(V::Str(s.into()));
    }
    for c in ['a', 'b', 'ü'] {
        v.push(V::Char(c));
    }
    v.push(arr(vec![]));
    v.push(arr(vec![V::Int(1)]));
    v.push(arr(vec![V::Int(1), V::Int(2)]));
    v.push(map(vec![]));
    v.push(map(vec![(V::Int(1), V::Int(1))]));
    v.push(V::Clos(0));
    v.push(V::Builtin("len"));
    v
}

/// Evaluate `expr` (over the global names a, b) on the real pipeline with a and b bound to the
/// given objects, REPL-style (second compilation unit sharing symbol table and globals).
pub fn eval_with_operands(expr: &str, a: &V, b: &V) -> Result<Outcome, String> {
    guarded(|| {
        let (p1, e1) = parse_only("let a = null; let b = null;");
        assert!(e1.is_empty());
        let mut c1 = Compiler::new();
        c1.compile(p1).expect("prelude compiles");
        let (p2, e2) = parse_only(expr);
        if !e2.is_empty() {
            return Outcome::ParseErr;
        }
        let mut c2 = Compiler::new_with_state(c1.symtab.clone(), c1.constants.clone());
        if c2.compile(p2).is_err() {
            return Outcome::CompileErr;
        }
        let mut vm = VM::new(c2.bytecode());
        vm.globals[0] = to_object(a);
        vm.globals[1] = to_object(b);
        match vm.run() {
            Ok(()) => Outcome::Value(canon(&vm.last_popped())),
            Err(e) => Outcome::RtErr(e.msg.clone(), e.line),
        }
    })
}

pub struct P09 {
    vals: Vec<V>,
    nbin: u64,
    half: u64,
}
impl P09 {
    pub fn new(tier: Tier) -> P09 {
        let vals = operand_values(tier);
        let n = vals.len() as u64;
        let nbin = BINOPS.len() as u64 * n * n;
        P09 { nbin, half: nbin + UNOPS.len() as u64 * n, vals }
    }
    /// (operator, a, b, is_binary, operands written as source literals instead of injected)
    fn case2(&self, idx: u64) -> (String, &V, &V, bool, bool) {
        let lit = idx >= self.half;
        let (o, a, b, bin) = self.case(idx % self.half);
        (o, a, b, bin, lit)
    }
    fn case(&self, idx: u64) -> (String, &V, &V, bool) {
        let n = self.vals.len() as u64;
        if idx < self.nbin {
            let v = unrank(idx, &[n, n, BINOPS.len() as u64]);
            (BINOPS[v[2] as usize].to_string(), &self.vals[v[1] as usize], &self.vals[v[0] as usize], true)
        } else {
            let v = unrank(idx - self.nbin, &[n, UNOPS.len() as u64]);
            (UNOPS[v[1] as usize].to_string(), &self.vals[v[0] as usize], &self.vals[0], false)
        }
    }
}

/// Compare an implementation outcome with the reference result. Returns (class suffix, verdict).
pub fn judge(prop: &str, what: &str, got: &Result<Outcome, String>, want: &R) -> (String, Verdict) {
    match (got, want) {
        (_, R::Unspecified(w)) => {
            if let Err(m) = got {
                // a crash is never acceptable, specified or not (reported under this property as well)
                return ("panic".into(), Verdict::Violation(format!("{}: panicked: {}", what, one_line(m, 160))));
            }
            ("unspecified".into(), Verdict::Skip(w))
        }
        (Err(m), _) => ("panic".into(), Verdict::Violation(format!("{}: panicked: {}", what, one_line(m, 160)))),
        (Ok(Outcome::Value(g)), R::Ok(w)) => {
            if *g == w.canon() {
                ("value".into(), Verdict::Pass)
            } else {
                ("wrong-value".into(), Verdict::Violation(format!("{}: got {} want {}", what, g, w.canon())))
            }
        }
        (Ok(Outcome::RtErr(..)), R::Err) => ("error".into(), Verdict::Pass),
        (Ok(Outcome::RtErr(m, _)), R::Ok(w)) => (
            "spurious-error".into(),
            Verdict::Violation(format!("{}: runtime error '{}' but the model gives {}", what, m, w.canon())),
        ),
        (Ok(Outcome::Value(g)), R::Err) => (
            "missing-error".into(),
            Verdict::Violation(format!("{}: got {} but the model requires a runtime error", what, g)),
        ),
        (Ok(o), _) => ("front-end".into(), Verdict::Violation(format!("{}: unexpected {:?}", what, o))),
    }
}

impl Property for P09 {
    fn id(&self) -> &'static str {
        "C09"
    }
    fn len(&self) -> u64 {
        // third pass: both operands are the same object (`a OP a`)
        2 * self.half + BINOPS.len() as u64 * self.vals.len() as u64
    }
    fn describe(&self, idx: u64) -> Value {
        if idx >= 2 * self.half {
            let v = unrank(idx - 2 * self.half, &[self.vals.len() as u64, BINOPS.len() as u64]);
            return json!({"expr": format!("a {} a", BINOPS[v[1] as usize]), "a (one object on both sides)": self.vals[v[0] as usize].to_src()});
        }
        let (op, a, b, bin, lit) = self.case2(idx);
        let mode = if lit { "operands written as source text" } else { "operands injected as objects" };
        if bin {
            json!({"expr": format!("{} {} {}", a.to_src(), op, b.to_src()), "mode": mode})
        } else {
            json!({"expr": format!("{}{}", op, a.to_src()), "mode": mode})
        }
    }
    fn run(&self, idx: u64) -> CaseOut {
        if idx >= 2 * self.half {
            let v = unrank(idx - 2 * self.half, &[self.vals.len() as u64, BINOPS.len() as u64]);
            let (a, op) = (&self.vals[v[0] as usize], BINOPS[v[1] as usize]);
            let want = binop(op, a, a);
            if let R::Unspecified(w) = &want {
                if w.contains("memory exclusion") {
                    return CaseOut::skip(format!("same {} {} -> not-run", a.kind(), op), "requests more memory than the exclusion allows");
                }
            }
            let got = eval_with_operands(&format!("a {} a", op), a, a);
            let (cls, verdict) = judge("C09", &format!("a {} a with a = {} (one object)", op, a.to_src()), &got, &want);
            return CaseOut { class: format!("same-object {} {} -> {}", a.kind(), op, cls), verdict, states: 1, transitions: 1, traces: 1 };
        }
        let (op, a, b, bin, lit) = self.case2(idx);
        let (expr, want, what) = if bin {
            (format!("a {} b", op), binop(&op, a, b), format!("{} {} {}", a.to_src(), op, b.to_src()))
        } else {
            (format!("{}a", op), unop(&op, a), format!("{}{}", op, a.to_src()))
        };
        if let R::Unspecified(w) = &want {
            if w.contains("memory exclusion") || (op == "*" && matches!((a, b), (V::Int(n), V::Str(s)) if (s.len() as u128) * (n.unsigned_abs() as u128) > (1 << 26))) {
                // excluded by the property itself (more memory than the machine has): not executed
                return CaseOut::skip(format!("{} {} {} -> not-run", a.kind(), op, b.kind()), "requests more memory than the exclusion allows");
            }
        }
        let got = if lit {
            // the same application with both operands written out as source text (literal path)
            let src = if bin { format!("{} {} {}", a.to_src(), op, b.to_src()) } else { format!("{}{}", op, a.to_src()) };
            guarded(|| run_src(&src).outcome)
        } else {
            eval_with_operands(&expr, a, b)
        };
        let (mut cls, mut verdict) = judge("C09", &what, &got, &want);
        if let (R::Unspecified(w), true) = (&want, bin) {
            if w.contains("ordering between a byte") {
                // the statement names no such combination: a runtime error, or else the numerically right answer
                let num = |v: &V| match v { V::Byte(x) => *x as f64, V::Int(x) => *x as f64, V::Float(x) => *x, _ => f64::NAN };
                let (x, y) = (num(a), num(b));
                let right = match op.as_str() { "<" => x < y, ">" => x > y, "<=" => x <= y, _ => x >= y };
                match &got {
                    Ok(Outcome::RtErr(..)) => { cls = "error".into(); verdict = Verdict::Pass; }
                    Ok(Outcome::Value(g)) if *g == format!("{}", right) => { cls = "value".into(); verdict = Verdict::Pass; }
                    Ok(Outcome::Value(g)) => { cls = "wrong-value".into(); verdict = Verdict::Violation(format!("{}: got {}; neither a runtime error nor the numeric answer {}", what, g, right)); }
                    _ => {}
                }
            }
        }
        let m = if lit { "lit " } else { "" };
        let class = if bin {
            format!("{}{} {} {} -> {}", m, a.kind(), op, b.kind(), cls)
        } else {
            format!("{}{}{} -> {}", m, op, a.kind(), cls)
        };
        CaseOut { class, verdict, states: 1, transitions: 1, traces: 1 }
    }
    fn rule(&self) -> String {
        format!(
            "every binary operator in {:?} applied to every ordered pair, and every unary operator in {:?} applied to \
             every element, of {} boundary operand values (13 ints incl. MIN/MAX/63/64/65/2^53, 9 floats incl. +-0, +-inf, \
             NaN, 5 bytes, bools, null, 4 strings, 3 chars, 3 arrays, 2 maps, a closure, a builtin); operands are \
             injected as real objects and, in a second pass, written as source literals; in a third pass every binary operator is applied to one object on both sides (`a OP a`); the result is compared with a transcription of the C09 statement; class = \
             (left kind, operator, right kind, outcome class)",
            BINOPS,
            UNOPS,
            self.vals.len()
        )
    }
    fn bounds(&self) -> Value {
        json!({"operand_values": self.vals.len(), "binary_ops": BINOPS.len(), "unary_ops": UNOPS.len()})
    }
    fn assumptions(&self) -> Vec<String> {
        vec![
            "the reference operator model (mc/src/refval.rs) is a faithful transcription of the statement".into(),
            "byte vs int/float comparison/equality, bitwise and shift operators on bytes and int*string are not specified by the statement: counted as skipped_unspecified (a panic there is still a violation)".into(),
            "operand values outside the boundary set are not covered".into(),
        ]
    }
}
