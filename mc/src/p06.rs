//! C06 — truthiness and short-circuit logic follow the documented table.

use crate::compiler::Compiler;
use crate::fw::*;
use crate::refval::*;
use crate::subject::*;
use crate::vm::interpreter::VM;
use serde_json::{json, Value};

pub fn truth_values() -> Vec<V> {
    vec![
        V::Bool(false),
        V::Bool(true),
        V::Int(0),
        V::Int(1),
        V::Int(-1),
        V::Float(0.0),
        V::Float(-0.0),
        V::Float(f64::NAN),
        V::Float(1.5),
        V::Float(5e-324),
        V::Float(-1e-300),
        V::Float(f64::INFINITY),
        V::Null,
        V::Char('\0'),
        V::Char('a'),
        V::Char('0'),
        V::Byte(0),
        V::Byte(b'a'),
        V::Str("".into()),
        V::Str("a".into()),
        V::Str("0".into()),
        V::Str("false".into()),
        arr(vec![]),
        arr(vec![V::Int(0)]),
        arr(vec![arr(vec![])]),
        map(vec![]),
        map(vec![(V::Int(0), V::Int(0))]),
        V::Clos(0),
        V::Builtin("len"),
        V::ErrObj,
    ]
}

/// further values used only by the thorough tier (limits, every sign/magnitude corner, more containers)
pub fn more_truth_values() -> Vec<V> {
    vec![
        V::Int(2),
        V::Int(i64::MIN),
        V::Int(i64::MAX),
        V::Float(f64::NEG_INFINITY),
        V::Float(f64::MIN_POSITIVE),
        V::Float(-5e-324),
        V::Float(1e308),
        V::Float(-1.0),
        V::Char(' '),
        V::Char('\u{e9}'),
        V::Char('\u{10ffff}'),
        V::Byte(1),
        V::Byte(128),
        V::Byte(255),
        V::Str(" ".into()),
        V::Str("\u{e9}".into()),
        V::Str("null".into()),
        arr(vec![V::Null]),
        arr(vec![V::Bool(false)]),
        map(vec![(V::Bool(false), V::Bool(false))]),
        map(vec![(V::Str("".into()), V::Null)]),
    ]
}

/// Run `prog` with globals a, b, obs(=[]) injected; returns (outcome, canon(obs), canon(r)) where r is global #3.
pub fn eval3(prog: &str, a: &V, b: &V) -> Result<(Outcome, String, String), String> {
    guarded(|| {
        let (p1, e1) = parse_only("let a = null; let b = null; let obs = null; let r = null;");
        assert!(e1.is_empty());
        let mut c1 = Compiler::new();
        c1.compile(p1).expect("prelude compiles");
        let (p2, e2) = parse_only(prog);
        if !e2.is_empty() {
            return (Outcome::ParseErr, String::new(), String::new());
        }
        let mut c2 = Compiler::new_with_state(c1.symtab.clone(), c1.constants.clone());
        if c2.compile(p2).is_err() {
            return (Outcome::CompileErr, String::new(), String::new());
        }
        let mut vm = VM::new(c2.bytecode());
        vm.globals[0] = to_object(a);
        vm.globals[1] = to_object(b);
        vm.globals[2] = to_object(&arr(vec![]));
        let o = match vm.run() {
            Ok(()) => Outcome::Value(canon(&vm.last_popped())),
            Err(e) => Outcome::RtErr(e.msg.clone(), e.line),
        };
        (o, canon(&vm.globals[2]), canon(&vm.globals[3]))
    })
}

/// as eval3 with a third injected global `c`
pub fn eval4(prog: &str, a: &V, b: &V, c: &V) -> Result<(Outcome, String, String), String> {
    guarded(|| {
        let (p1, e1) = parse_only("let a = null; let b = null; let obs = null; let r = null; let c = null;");
        assert!(e1.is_empty());
        let mut c1 = Compiler::new();
        c1.compile(p1).expect("prelude compiles");
        let (p2, e2) = parse_only(prog);
        if !e2.is_empty() {
            return (Outcome::ParseErr, String::new(), String::new());
        }
        let mut c2 = Compiler::new_with_state(c1.symtab.clone(), c1.constants.clone());
        if c2.compile(p2).is_err() {
            return (Outcome::CompileErr, String::new(), String::new());
        }
        let mut vm = VM::new(c2.bytecode());
        vm.globals[0] = to_object(a);
        vm.globals[1] = to_object(b);
        vm.globals[2] = to_object(&arr(vec![]));
        vm.globals[4] = to_object(c);
        let o = match vm.run() {
            Ok(()) => Outcome::Value(canon(&vm.last_popped())),
            Err(e) => Outcome::RtErr(e.msg.clone(), e.line),
        };
        (o, canon(&vm.globals[2]), canon(&vm.globals[3]))
    })
}

const POSITIONS: &[&str] = &["!v", "if v", "while v", "v && probe", "v || probe", "if !v", "filter pattern"];

pub struct P06 {
    vals: Vec<V>,
    e2e: bool,
    /// chains `a OP1 p1(b) OP2 p2(c)` over all value triples (thorough only)
    triples: bool,
}
const CHAINS: &[(&str, &str)] = &[("&&", "&&"), ("&&", "||"), ("||", "&&"), ("||", "||")];
impl P06 {
    pub fn new(t: Tier) -> P06 {
        let mut vals = truth_values();
        if t == Tier::Thorough {
            vals.extend(more_truth_values());
        }
        P06 { vals, e2e: std::path::Path::new(&bin_path()).exists(), triples: t == Tier::Thorough }
    }
    fn n_pairs_end(&self) -> u64 {
        let n = self.vals.len() as u64;
        n * self.npos() + 2 * n * n
    }
    fn npos(&self) -> u64 {
        if self.e2e { POSITIONS.len() as u64 } else { POSITIONS.len() as u64 - 1 }
    }
}

pub fn one_packet_pcap() -> Vec<u8> {
    let mut v = vec![];
    v.extend_from_slice(&0xA1B2C3D4u32.to_le_bytes());
    v.extend_from_slice(&2u16.to_le_bytes());
    v.extend_from_slice(&4u16.to_le_bytes());
    v.extend_from_slice(&0i32.to_le_bytes());
    v.extend_from_slice(&0u32.to_le_bytes());
    v.extend_from_slice(&65535u32.to_le_bytes());
    v.extend_from_slice(&1u32.to_le_bytes());
    let frame: Vec<u8> = (0..60u8).collect();
    v.extend_from_slice(&1u32.to_le_bytes());
    v.extend_from_slice(&2u32.to_le_bytes());
    v.extend_from_slice(&(frame.len() as u32).to_le_bytes());
    v.extend_from_slice(&(frame.len() as u32).to_le_bytes());
    v.extend_from_slice(&frame);
    v
}

impl Property for P06 {
    fn id(&self) -> &'static str {
        "C06"
    }
    fn len(&self) -> u64 {
        let n = self.vals.len() as u64;
        self.n_pairs_end() + if self.triples { n * n * n * CHAINS.len() as u64 } else { 0 }
    }
    fn describe(&self, idx: u64) -> Value {
        let n = self.vals.len() as u64;
        let single = n * self.npos();
        if idx >= self.n_pairs_end() {
            let v = unrank(idx - self.n_pairs_end(), &[n, n, n, CHAINS.len() as u64]);
            let (o1, o2) = CHAINS[v[3] as usize];
            return json!({"expr": format!("a {} p1(b) {} p2(c)", o1, o2), "a": self.vals[v[2] as usize].to_src(), "b": self.vals[v[1] as usize].to_src(), "c": self.vals[v[0] as usize].to_src()});
        }
        if idx < single {
            let v = unrank(idx, &[n, self.npos()]);
            json!({"position": POSITIONS[v[1] as usize], "v": self.vals[v[0] as usize].to_src()})
        } else {
            let v = unrank(idx - single, &[n, n, 2]);
            json!({"expr": format!("a {} probe(b)", if v[2] == 0 { "&&" } else { "||" }),
                   "a": self.vals[v[1] as usize].to_src(), "b": self.vals[v[0] as usize].to_src()})
        }
    }
    fn run(&self, idx: u64) -> CaseOut {
        let n = self.vals.len() as u64;
        let single = n * self.npos();
        if idx >= self.n_pairs_end() {
            // a OP1 p1(b) OP2 p2(c): && binds tighter than ||, both group to the left; each probe records its call
            let v = unrank(idx - self.n_pairs_end(), &[n, n, n, CHAINS.len() as u64]);
            let (a, b, c) = (&self.vals[v[2] as usize], &self.vals[v[1] as usize], &self.vals[v[0] as usize]);
            let (o1, o2) = CHAINS[v[3] as usize];
            let mut probes: Vec<i64> = vec![];
            let and = |x: &V, y: &mut dyn FnMut() -> V| if x.falsey() { x.clone() } else { y() };
            let or = |x: &V, y: &mut dyn FnMut() -> V| if x.falsey() { y() } else { x.clone() };
            let want: V = match (o1, o2) {
                ("&&", "&&") => { let l = and(a, &mut || { probes.push(1); b.clone() }); and(&l, &mut || { probes.push(2); c.clone() }) }
                ("&&", "||") => { let l = and(a, &mut || { probes.push(1); b.clone() }); or(&l, &mut || { probes.push(2); c.clone() }) }
                ("||", "||") => { let l = or(a, &mut || { probes.push(1); b.clone() }); or(&l, &mut || { probes.push(2); c.clone() }) }
                _ => {
                    // a || (p1(b) && p2(c))
                    if a.falsey() {
                        probes.push(1);
                        if b.falsey() { b.clone() } else { probes.push(2); c.clone() }
                    } else {
                        a.clone()
                    }
                }
            };
            let want_obs = format!("[{}]", probes.iter().map(|p| format!("i{}", p)).collect::<Vec<_>>().join(","));
            let prog = format!("let p1 = fn() {{ push(obs, 1); b }}; let p2 = fn() {{ push(obs, 2); c }}; r = a {} p1() {} p2(); r", o1, o2);
            let class = format!("chain {} {} {}{}{}", o1, o2, if a.falsey() { "F" } else { "T" }, if b.falsey() { "F" } else { "T" }, if c.falsey() { "F" } else { "T" });
            return match eval4(&prog, a, b, c) {
                Err(m) => CaseOut::viol(class, format!("panicked: {}", m)),
                Ok((Outcome::Value(g), obs, r)) => {
                    if g == want.canon() && r == want.canon() && obs == want_obs {
                        CaseOut::pass(class)
                    } else {
                        CaseOut::viol(class, format!("a={} b={} c={} in `a {} p1(b) {} p2(c)`: got {} (stored {}) probes {}; want {} probes {}", a.to_src(), b.to_src(), c.to_src(), o1, o2, g, r, obs, want.canon(), want_obs))
                    }
                }
                Ok((o, _, _)) => CaseOut::viol(class, format!("a={} b={} c={}: unexpected {:?}", a.to_src(), b.to_src(), c.to_src(), o)),
            };
        }
        if idx < single {
            let v = unrank(idx, &[n, self.npos()]);
            let val = &self.vals[v[0] as usize];
            let pos = POSITIONS[v[1] as usize];
            let f = val.falsey();
            let class = format!("{} on {}({})", pos, val.kind(), if f { "falsey" } else { "truthy" });
            let other = V::Int(7);
            let (prog, want_val, want_obs): (&str, String, String) = match pos {
                "!v" => ("!a", V::Bool(f).canon(), "[]".into()),
                "if v" => ("if a { push(obs, 1); 10 } else { push(obs, 2); 20 }",
                           V::Int(if f { 20 } else { 10 }).canon(), format!("[i{}]", if f { 2 } else { 1 })),
                "if !v" => ("if !a { push(obs, 1); 10 } else { push(obs, 2); 20 }",
                           V::Int(if f { 10 } else { 20 }).canon(), format!("[i{}]", if f { 1 } else { 2 })),
                "while v" => ("while a { push(obs, 1); break; } len(obs)", V::Int(if f { 0 } else { 1 }).canon(),
                              if f { "[]".into() } else { "[i1]".to_string() }),
                "v && probe" => ("let p = fn() { push(obs, 1); b }; a && p()",
                                 if f { val.canon() } else { other.canon() }, if f { "[]".into() } else { "[i1]".to_string() }),
                "v || probe" => ("let p = fn() { push(obs, 1); b }; a || p()",
                                 if f { other.canon() } else { val.canon() }, if f { "[i1]".to_string() } else { "[]".into() }),
                _ => {
                    // filter pattern with an action, end to end: the action runs iff the pattern value is truthy
                    let dir = scratch_dir("c06");
                    let path = dir.join("f.p2");
                    let src = format!("let v = {};\n@ v {{ println(\"ACTION\"); }}\n@ true {{ println(\"NEXT\"); }}\n", val.to_src());
                    std::fs::write(&path, &src).unwrap();
                    let o = run_bin(&["-s", path.to_str().unwrap()], &one_packet_pcap(), &[], 10);
                    if o.crashed() {
                        return CaseOut::viol(class, format!("binary crashed: {}", one_line(&o.err_s(), 200)));
                    }
                    let ran = o.out_s().contains("ACTION");
                    // a falsey pattern behaves like `false`: no error, and the filters after it still run
                    if o.err_s().contains("Runtime error") || !o.out_s().contains("NEXT") {
                        return CaseOut::viol(class, format!("the pattern value {} is not simply tested for truthiness: stdout {:?} stderr {}", val.to_src(), one_line(&o.out_s(), 80), one_line(&o.err_s(), 160)));
                    }
                    // without an action the packet is written exactly when the pattern value is truthy
                    let src2 = format!("let v = {};\n@ v\n", val.to_src());
                    std::fs::write(&path, &src2).unwrap();
                    let o2 = run_bin(&[path.to_str().unwrap()], &one_packet_pcap(), &[], 10);
                    let written = o2.stdout.len() > 24;
                    if o2.crashed() || o2.err_s().contains("Runtime error") || written == f {
                        return CaseOut::viol(class, format!("action-less filter with pattern value {} (falsey={}): packet written={} stderr {}", val.to_src(), f, written, one_line(&o2.err_s(), 160)));
                    }
                    return if ran == !f {
                        CaseOut::pass(class)
                    } else {
                        CaseOut::viol(class, format!("filter action ran={} for pattern value {} (falsey={}) stderr={}", ran, val.to_src(), f, one_line(&o.err_s(), 120)))
                    };
                }
            };
            match eval3(prog, val, &other) {
                Err(m) => CaseOut::viol(class, format!("panicked: {}", m)),
                Ok((Outcome::Value(g), obs, _)) => {
                    if g == want_val && obs == want_obs {
                        CaseOut::pass(class)
                    } else {
                        CaseOut::viol(class, format!("{} with v={}: got value {} probes {} want {} {}", pos, val.to_src(), g, obs, want_val, want_obs))
                    }
                }
                Ok((o, _, _)) => CaseOut::viol(class, format!("{} with v={}: unexpected {:?}", pos, val.to_src(), o)),
            }
        } else {
            let v = unrank(idx - single, &[n, n, 2]);
            let (a, b) = (&self.vals[v[1] as usize], &self.vals[v[0] as usize]);
            let and = v[2] == 0;
            let f = a.falsey();
            let prog = if and { "let p = fn() { push(obs, 1); b }; r = a && p(); r" } else { "let p = fn() { push(obs, 1); b }; r = a || p(); r" };
            let (want, fired) = if and { if f { (a, false) } else { (b, true) } } else if f { (b, true) } else { (a, false) };
            let class = format!("{}({}) {} {}", a.kind(), if f { "falsey" } else { "truthy" }, if and { "&&" } else { "||" }, b.kind());
            match eval3(prog, a, b) {
                Err(m) => CaseOut::viol(class, format!("panicked: {}", m)),
                Ok((Outcome::Value(g), obs, r)) => {
                    let want_obs = if fired { "[i1]" } else { "[]" };
                    if g == want.canon() && r == want.canon() && obs == want_obs {
                        CaseOut::pass(class)
                    } else {
                        CaseOut::viol(class, format!("a={} b={}: got {} (stored {}) probes {}; want {} probes {}", a.to_src(), b.to_src(), g, r, obs, want.canon(), want_obs))
                    }
                }
                Ok((o, _, _)) => CaseOut::viol(class, format!("a={} b={}: unexpected {:?}", a.to_src(), b.to_src(), o)),
            }
        }
    }
    fn rule(&self) -> String {
        format!("{} representative values (every kind with zero/non-zero, empty/non-empty, NaN, -0.0, smallest subnormal, strings \"0\"/\"false\", nested empty containers, closure, builtin, error object) in every truthiness position {:?}, and all ordered pairs for 'a && probe(b)' and 'a || probe(b)' where the probe records its evaluation; thorough: 21 further values (integer and float limits, negative subnormal, bytes 1/128/255, non-ASCII chars, containers holding only falsey values) and every value triple in the four chains 'a OP1 p1(b) OP2 p2(c)' (&& binds tighter than ||) with both probes recording; operands injected as real objects; oracle = the C06 table; class = (position/operator, kinds, truthiness)", self.vals.len(), POSITIONS)
    }
    fn bounds(&self) -> Value {
        json!({"values": self.vals.len(), "positions": self.npos(), "pairs": self.vals.len() * self.vals.len() * 2})
    }
    fn assumptions(&self) -> Vec<String> {
        vec!["in the filter position, through the binary: the action runs iff the pattern value is truthy, no runtime error is raised, the filters after it still run, and an action-less filter writes the packet iff the value is truthy".into(),
             "values outside the representative set are not covered".into()]
    }
}
