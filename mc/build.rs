// Emits mods.rs declaring the subject's library-like modules by absolute path, so that the
// harness is always compiled from the *current working tree* of the repository under test.
use std::{env, fs, path::PathBuf};
fn main() {
    let repo = env::var("P2SH_REPO").unwrap_or_else(|_| "/repo".to_string());
    println!("cargo:rerun-if-env-changed=P2SH_REPO");
    println!("cargo:rerun-if-changed=build.rs");
    // the hooks in the subject are guarded by this cfg
    println!("cargo:rustc-cfg=p2sh_verif");
    println!("cargo:rustc-check-cfg=cfg(p2sh_verif)");
    let mut s = String::new();
    for m in ["builtins", "code", "compiler", "object", "parser", "scanner", "vm"] {
        s.push_str(&format!(
            "#[path = \"{repo}/src/{m}/mod.rs\"]\n#[allow(dead_code, unused, clippy::all, unexpected_cfgs)]\npub mod {m};\n"
        ));
    }
    s.push_str(&format!("pub const P2SH_REPO: &str = \"{repo}\";\n"));
    let out = PathBuf::from(env::var("OUT_DIR").unwrap()).join("mods.rs");
    fs::write(out, s).unwrap();
}
