#!/bin/bash
# usage: ./run_all.sh [quick|thorough] [IDs...]  -- run every check of a tier, print exit code and wall time per property
TIER="${1:-quick}"; shift
IDS="$@"; [ -z "$IDS" ] && IDS=$(seq -f "C%02g" 1 24)
cd "$(dirname "$0")"
rc_all=0
for id in $IDS; do
  s=$(date +%s.%N)
  ./check $id $TIER > .cache/last-$id-$TIER.log 2>&1; rc=$?
  e=$(date +%s.%N)
  printf "%s %s exit=%d %.1fs  %s\n" $id $TIER $rc $(echo "$e - $s" | bc) "$(tail -1 .cache/last-$id-$TIER.log | cut -c1-160)"
  [ $rc -ne 0 ] && rc_all=1
done
exit $rc_all
