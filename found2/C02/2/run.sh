#!/bin/bash
# exit 1: a 'let' whose initialiser failed at run time leaves a (null) binding behind in the REPL
# exit 0: the failed 'let' binds nothing
cd "$(dirname "$0")/../.." || exit 2
RUSTFLAGS="--cfg p2sh_verif" cargo build --offline --target-dir target-verif 2>/dev/null || exit 2
out=$(P2SH_VERIF_REPL_STDIN=1 ./target-verif/debug/p2sh < FOUND/2/history.txt 2> FOUND/2/stderr.txt)
err=$(cat FOUND/2/stderr.txt); rm -f FOUND/2/stderr.txt
echo "stdout:"; echo "$out"
echo "stderr:"; echo "$err"
bad=0
# line 2 failed: 'a' must still be the 1 of line 1 (it is certainly not null)
if echo "$out" | grep -q '^a = null$'; then
  echo "VIOLATION: the failed 'let a = ...' replaced a = 1 by a = null"
  bad=1
fi
# line 4 failed: 'y' was never bound, line 5 must be rejected as a use of an undefined name
if echo "$out" | grep -q '^y = null$'; then
  echo "VIOLATION: 'y' is usable (null) although its definition failed"
  bad=1
fi
if [ $bad = 0 ]; then
  echo "$out" | grep -q '^a = 1$' || { echo "unexpected output"; exit 2; }
  echo "$err" | grep -q "undefined identifier 'y'" || { echo "unexpected output"; exit 2; }
fi
exit $bad
