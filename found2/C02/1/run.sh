#!/bin/bash
# exit 1: the program keeps running (and observing values) after its runtime error
# exit 0: the program stops at the runtime error
cd "$(dirname "$0")/../.." || exit 2
cargo build --offline 2>/dev/null || exit 2
bad=0
for p in prog.p2 prog_fn.p2; do
  out=$(./target/debug/p2sh -s FOUND/1/$p < FOUND/1/one.pcap 2> FOUND/1/stderr.txt)
  err=$(cat FOUND/1/stderr.txt)
  echo "== $p"
  echo "stdout:"; echo "$out"
  echo "stderr:"; echo "$err"
  case "$err" in
    *"Runtime error"*) ;;
    *) echo "no runtime error reported?"; exit 2 ;;
  esac
  # the only value that may be observed is the one before the failing statement
  if [ "$out" != "start" ]; then
    echo "VIOLATION: values were observed after the runtime error"
    bad=1
  fi
done
rm -f FOUND/1/stderr.txt
exit $bad
