#!/bin/bash
cd "$(dirname "$0")/../.." || exit 2
cargo build --offline 2>/dev/null || exit 2
D=FOUND/1
got=$(./target/debug/p2sh $D/nested.p2 -s < $D/in.pcap 2>&1)
exp=$'outer\ninner sees sec=7'
echo "--- got"; echo "$got"; echo "--- expected (source order)"; echo "$exp"
if [ "$got" == "$exp" ]; then exit 0; else exit 1; fi
