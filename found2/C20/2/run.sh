#!/bin/bash
cd "$(dirname "$0")/../.." || exit 2
cargo build --offline 2>/dev/null || exit 2
D=FOUND/2
P=./target/debug/p2sh
rc=0
# reference behaviour: after a runtime error in a filter the stream stops and the end filter runs
ref=$($P $D/divzero.p2 -s < $D/in.pcap 2>/dev/null)
echo "divzero in filter      -> stdout: '$ref'"
got=$($P $D/overflow.p2 -s < $D/in.pcap 2>/dev/null)
echo "'Stack overflow!' in filter -> stdout: '$got'   (expected 'end NP=2')"
[ "$got" == "end NP=2" ] || rc=1
ref2=$($P $D/main_divzero.p2 -s < $D/in.pcap 2>/dev/null | tr '\n' ' ')
echo "divzero in main        -> stdout: '$ref2'"
got2=$($P $D/main_overflow.p2 -s < $D/in.pcap 2>/dev/null | tr '\n' ' ')
echo "'Stack overflow!' in main   -> stdout: '$got2'   (expected 'pkt 1 pkt 2 pkt 3 pkt 4 pkt 5 end NP=5 ')"
[ "$got2" == "pkt 1 pkt 2 pkt 3 pkt 4 pkt 5 end NP=5 " ] || rc=1
exit $rc
