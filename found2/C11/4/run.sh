#!/bin/bash
cd "$(dirname "$0")/../.." || exit 2
cargo build --offline >/dev/null 2>&1 || exit 2
bad=0
for f in contains_mapkey contains_fnkey contains_filekey get_mapkey get_fnkey get_errkey; do
  b=${f%%_*}
  out=$(./target/debug/p2sh FOUND/4/$f.p2 2>&1 </dev/null)
  echo "$f: $out"
  if echo "$out" | grep -q "Runtime error: $b: "; then :; else bad=$((bad+1)); echo "  VIOLATION: no runtime error naming $b"; fi
done
for f in ref_insert_mapkey ref_index_mapkey; do
  echo "$f: $(./target/debug/p2sh FOUND/4/$f.p2 2>&1 </dev/null)"
done
[ $bad -eq 0 ] && exit 0
exit 1
