#!/bin/bash
cd "$(dirname "$0")/../.." || exit 2
cargo build --offline >/dev/null 2>&1 || exit 2
out=$(./target/debug/p2sh FOUND/3/byte_int.p2 2>&1)
echo "$out"
if echo "$out" | grep -q "VIOLATION"; then exit 1; fi
if echo "$out" | grep -q "^consistent$"; then exit 0; fi
exit 2
