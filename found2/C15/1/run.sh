#!/bin/bash
# pcap_write of an unmodified packet longer than 65535 bytes to a pcap writer
# whose file is not seekable (pipe / FIFO) writes nothing for that packet.
cd "$(dirname "$0")/../.." || exit 2
cargo build --offline >/dev/null 2>&1 || exit 2
D=FOUND/1
T=$(mktemp -d) || exit 2
trap 'rm -rf "$T"' EXIT
# the pcap writer is opened on /dev/stdout, which is a pipe here
./target/debug/p2sh $D/copy.p2 $D/in.pcap /dev/stdout 2>"$T/err" | cat > "$T/out.pcap"
# the packet records (everything after the 24 byte global header) must be identical
if cmp -s <(tail -c +25 $D/in.pcap) <(tail -c +25 "$T/out.pcap"); then
  echo "property holds: packet records identical"
  exit 0
fi
echo "VIOLATION: records differ: in=$(stat -c %s $D/in.pcap) bytes, out=$(stat -c %s "$T/out.pcap") bytes"
cat "$T/err"
exit 1
