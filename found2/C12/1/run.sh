#!/bin/bash
cd "$(dirname "$0")/../.." || exit 2
cargo build --offline >/dev/null 2>&1 || exit 2
P=./target/debug/p2sh
D=FOUND/1
bad=0
# control: '{' (and any other char) works as a fill character
c=$($P $D/control.p2 2>&1)
[ "$c" = '{{{{1|ab##|{{1' ] || { echo "control unexpected: $c"; exit 2; }

o1=$($P $D/case1.p2 2>&1)
[ "$o1" = '}}}}1|' ] || { echo "case1: want '}}}}1|' got '$o1'"; bad=1; }
o2=$($P $D/case2.p2 2>&1)
[ "$o2" = 'ab}}|' ] || { echo "case2: want 'ab}}|' got '$o2'"; bad=1; }
o3=$($P $D/case3.p2 2>&1)
want3=$'}ff\n3'
[ "$o3" = "$want3" ] || { echo "case3: want '}ff' and 3, got '$o3'"; bad=1; }
exit $bad
