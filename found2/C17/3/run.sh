#!/bin/bash
cd "$(dirname "$0")/../.." || exit 2
cargo build --offline >/dev/null 2>&1 || exit 2
D=FOUND/3
out=$(./target/debug/p2sh $D/case.p2 2>&1)
echo "$out"
before=$(echo "$out" | sed -n 's/^before \(vlan=.* ipv6=.*\) type=.*$/\1/p')
after=$(echo "$out" | sed -n 's/^after  \(vlan=.* ipv6=.*\) type=.*$/\1/p')
[ -n "$before" ] && [ -n "$after" ] || exit 2
if [ "$before" != "$after" ]; then
    echo "VIOLATION: after assigning eth.type the properties eth.vlan / eth.ipv6 no longer read as before"
    echo "  before: $before"
    echo "  after : $after"
    exit 1
fi
exit 0
