#!/bin/bash
cd "$(dirname "$0")/../.." || exit 2
cargo build --offline >/dev/null 2>&1 || exit 2
D=FOUND/1
rm -f $D/out.pcap $D/out2.pcap
bad=0

# history A: assign ttl, retarget eth.type, touch the newly selected layer (a read), restore eth.type
outA=$(./target/debug/p2sh $D/case.p2 2>&1)
echo "$outA"
echo "$outA" | grep -q '^ttl at the end: 1$' || { echo "VIOLATION(A): ipv4.ttl was assigned 1 but reads back differently"; bad=1; }
# byte 24+16+14+8 = offset 62 is the TTL of the only packet
ttlA=$(od -An -tu1 -j62 -N1 $D/out.pcap | tr -d ' ')
[ "$ttlA" = "1" ] || { echo "VIOLATION(A): serialised ttl byte is $ttlA, expected 1"; bad=1; }

# history B: assignments only (the third one goes through the newly selected layer)
outB=$(./target/debug/p2sh $D/case_assign_only.p2 2>&1)
echo "$outB"
echo "$outB" | grep -q '^ttl at the end: 1$' || { echo "VIOLATION(B): ipv4.ttl was assigned 1 but reads back differently"; bad=1; }
ttlB=$(od -An -tu1 -j62 -N1 $D/out2.pcap | tr -d ' ')
[ "$ttlB" = "1" ] || { echo "VIOLATION(B): serialised ttl byte is $ttlB, expected 1"; bad=1; }

exit $bad
