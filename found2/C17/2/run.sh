#!/bin/bash
cd "$(dirname "$0")/../.." || exit 2
cargo build --offline >/dev/null 2>&1 || exit 2
D=FOUND/2
rm -f $D/out.pcap
out=$(./target/debug/p2sh $D/case.p2 2>&1)
echo "$out"
if echo "$out" | grep -q 'Runtime error'; then
    raised=1
else
    raised=0
fi
echo "--- re-reading the written file"
./target/debug/p2sh $D/reread.p2 2>&1
if cmp -s $D/in.pcap $D/out.pcap; then
    unchanged=1
else
    unchanged=0
    echo "--- written file differs from the input:"
    cmp -l $D/in.pcap $D/out.pcap | head -20
    ls -l $D/in.pcap $D/out.pcap
fi
# the property allows exactly: (error raised and packet unchanged); a layer has no
# "reduced to the field's width" reading for the integer 5 / the string "abc"
if [ $raised = 0 ] && [ $unchanged = 0 ]; then
    echo "VIOLATION: invalid values were accepted without a runtime error and the packets were corrupted"
    exit 1
fi
exit 0
