#!/bin/bash
cd "$(dirname "$0")/../.." || exit 2
cargo build --offline >/dev/null 2>&1 || exit 2
D=FOUND/4
rm -f $D/out.pcap
a=$(./target/debug/p2sh $D/case.p2 2>&1)
b=$(./target/debug/p2sh $D/reread.p2 2>&1)
echo "$a"; echo "$b"
[ "${a#immediately: }" != "$a" ] && [ "${b#re-parsed  : }" != "$b" ] || exit 2
if [ "${a#immediately: }" != "${b#re-parsed  : }" ]; then
    echo "VIOLATION: the assigned global-header values read back immediately but are not in the serialised file"
    exit 1
fi
exit 0
