#!/bin/bash
cd "$(dirname "$0")/../.." || exit 2
# exit 1 = violation (the interpreter panics), exit 0 = property holds
cargo build --offline >/dev/null 2>&1 || exit 2
[ -w /dev/full ] || { echo "/dev/full not available"; exit 2; }
T=$(mktemp)
./target/debug/p2sh FOUND/2/prog.p2 < FOUND/2/stdin.txt > /dev/full 2>"$T"
rc=$?
if [ "$rc" -eq 101 ] || grep -q "panicked" "$T"; then
    echo "input() with an unwritable stdout: exit status $rc"
    grep -m1 -A1 "panicked" "$T"
    rm -f "$T"; exit 1
fi
cat "$T"; rm -f "$T"
exit 0
