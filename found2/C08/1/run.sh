#!/bin/bash
cd "$(dirname "$0")/../.." || exit 2
# exit 1 = violation (the interpreter panics), exit 0 = property holds
cargo build --offline >/dev/null 2>&1 || exit 2
BIN=./target/debug/p2sh
T=$(mktemp -d)
bad=0

# (a) stdout is a pipe whose reader goes away:  p2sh prog.p2 | head -n 1
$BIN FOUND/1/prog.p2 2>"$T/a.err" | head -n 1 >/dev/null
rc=${PIPESTATUS[0]}
if [ "$rc" -eq 101 ] || grep -q "panicked" "$T/a.err"; then
    echo "(a) broken pipe on stdout: exit status $rc"; grep -m1 -A1 "panicked" "$T/a.err"; bad=1
fi

# (b) stdout cannot take the data (device full)
if [ -w /dev/full ]; then
    $BIN FOUND/1/prog.p2 >/dev/full 2>"$T/b.err"
    rc=$?
    if [ "$rc" -eq 101 ] || grep -q "panicked" "$T/b.err"; then
        echo "(b) stdout on /dev/full: exit status $rc"; grep -m1 -A1 "panicked" "$T/b.err"; bad=1
    fi
    # (c) reporting a runtime error when stderr cannot take the data
    $BIN FOUND/1/err.p2 2>/dev/full >/dev/null
    rc=$?
    if [ "$rc" -eq 101 ]; then
        echo "(c) runtime error report with stderr on /dev/full: exit status $rc"; bad=1
    fi
fi
rm -rf "$T"
exit $bad
