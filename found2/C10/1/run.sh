#!/bin/bash
cd "$(dirname "$0")/../.." || exit 2
cargo build --offline 2>/dev/null || exit 2
out=$(./target/debug/p2sh FOUND/1/prog.p2 2>&1)
echo "$out"
bad=0
# the stored key a and the literal [1, 2] are == ...
echo "$out" | grep -qx 'eq true' || { echo "unexpected: keys not =="; exit 2; }
# ... so they have to be the same entry
echo "$out" | grep -qx 'contains_lit true' || bad=1
echo "$out" | grep -qx 'contains_same true' || bad=1
echo "$out" | grep -qx 'get first' || bad=1
echo "$out" | grep -qx 'insert_old first' || bad=1
echo "$out" | grep -qx 'len 1' || bad=1
out2=$(./target/debug/p2sh FOUND/1/prog2.p2 2>&1)
echo "$out2"
# two entries whose keys are == (informational, same cause)
if [ $bad -eq 1 ]; then
  echo "VIOLATION: a key that is == to a stored key is not treated as the same entry"
  exit 1
fi
exit 0
