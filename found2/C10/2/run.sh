#!/bin/bash
cd "$(dirname "$0")/../.." || exit 2
cargo build --offline 2>/dev/null || exit 2
out=$(./target/debug/p2sh FOUND/2/prog.p2 2>&1)
echo "$out"
echo "$out" | grep -qx 'eq true' || { echo "keys are not == here: nothing to check"; exit 0; }
echo "$out" | grep -qx 'contains true' || exit 0
# [a] == [c] and contains/get/index address the existing entry: insert has to overwrite it
if echo "$out" | grep -qx 'insert_old 1' && echo "$out" | grep -qx 'len_after 1'; then
  exit 0
fi
echo "VIOLATION: contains/get/index find the entry of an == key, insert adds a second entry"
exit 1
