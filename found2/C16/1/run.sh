#!/bin/bash
# exits 1 when the violation manifests, 0 when the property holds on these inputs
cd "$(dirname "$0")/../.." || exit 2
cargo build --offline >/dev/null 2>&1 || { echo "build failed"; exit 2; }
D=FOUND/1
out=$(./target/debug/p2sh -s "$D/prog.p2" < "$D/in.pcap" 2>&1)
echo "$out"
if [ "$out" = "$(cat "$D/expected.txt")" ]; then
    echo "OK: a layer the selector field does not announce reads as null, before and after the announced layer was parsed"
    exit 0
fi
echo "VIOLATION: the value of an unselected named layer property depends on earlier reads (see diff)"
diff <(echo "$out") "$D/expected.txt"
exit 1
