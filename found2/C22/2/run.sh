#!/bin/bash
cd "$(dirname "$0")/../.." || exit 2
cargo build --offline >/dev/null 2>&1 || exit 2
P=./target/debug/p2sh

# stdin is opened write-only and stdout read-only, so every read(0,...) and
# write(1,...) system call fails with EBADF
if command -v strace >/dev/null 2>&1; then
    out=$(strace -f -e trace=read,write -o FOUND/2/strace.out $P FOUND/2/ebadf.p2 2>&1 0>/dev/null 1</dev/null)
    echo "failed system calls on fd 0/1:"
    grep -E '^[0-9]+ +(read\(0|write\(1).*EBADF' FOUND/2/strace.out
    nfail=$(grep -cE '^[0-9]+ +(read\(0|write\(1).*EBADF' FOUND/2/strace.out)
    rm -f FOUND/2/strace.out
    if [ "$nfail" -eq 0 ]; then echo "no OS failure happened"; exit 0; fi
else
    out=$($P FOUND/2/ebadf.p2 2>&1 0>/dev/null 1</dev/null)
fi
echo "$out"
echo "$out" | grep -q '^done$' || { echo "interpreter did not finish"; exit 1; }
# the property holds if every I/O call that hit EBADF reported an error object
n=$(echo "$out" | grep -cE '^(read|read_line|write|pcap_write|write2): is_error=false')
if [ "$n" -gt 0 ]; then
    echo "VIOLATION: $n builtin calls met EBADF and reported success"
    exit 1
fi
exit 0
