import socket, subprocess, sys
a,b = socket.socketpair(socket.AF_UNIX, socket.SOCK_STREAM)
a.send(b'x')            # unread data on b's side ...
b.send(open(sys.argv[2],'rb').read())
b.close()               # ... makes a's later reads fail with ECONNRESET once the queue is drained
r = subprocess.run([sys.argv[1]] + sys.argv[3:], stdin=a.fileno())
sys.exit(r.returncode)
