#!/bin/bash
cd "$(dirname "$0")/../.." || exit 2
cargo build --offline >/dev/null 2>&1 || exit 2
P=./target/debug/p2sh
rc=0

# (a) non-pcap content after one good record: the pcap_read_all call that runs
# into the damage must return an error object
out=$($P FOUND/1/file.p2 2>&1)
echo "$out"
if echo "$out" | grep -q '^file pcap_read_all: is_error=false' &&
   echo "$out" | grep -q '^file following pcap_read_next: is_error=true'; then
    echo "VIOLATION (a): pcap_read_all met the damaged record and returned an array"
    rc=1
fi

# (b) a genuine OS failure (ECONNRESET on stdin after three good records);
# needs python3 to set the socket up, skipped otherwise
if command -v python3 >/dev/null 2>&1; then
    out=$(python3 FOUND/1/reset_stdin.py $P FOUND/1/ok.pcap FOUND/1/stream.p2 2>&1)
    echo "$out"
    if echo "$out" | grep -q '^stream pcap_read_all: is_error=false' &&
       echo "$out" | grep -q '^stream following pcap_read_next: is_error=true.*os error 104'; then
        echo "VIOLATION (b): pcap_read_all met ECONNRESET and returned an array"
        rc=1
    fi
fi
exit $rc
