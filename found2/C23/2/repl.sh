#!/bin/bash
# usage: repl.sh <history file>   (run from the root of the tree)
# Types the lines of the history file into the REPL of the unmodified binary
# (through a pseudo terminal made by script(1), because the REPL refuses a
# non-tty stdin) and prints what the REPL answered, prompt echoes removed.
# Without script(1) it falls back to the p2sh_verif build that reads REPL lines
# from stdin.
hist="$1"
if command -v script >/dev/null 2>&1; then
    ( sleep 0.7
      while IFS= read -r l || [ -n "$l" ]; do printf '%s\r' "$l"; sleep 0.4; done < "$hist"
      printf 'quit\r'; sleep 0.4 ) |
    TERM=dumb script -qec ./target/debug/p2sh /dev/null 2>&1 |
    tr -d '\r' | sed 's/\x1b\[[0-9;?]*[A-Za-z]//g' |
    grep -v -e '>> ' -e '^The p2sh' -e '^Type quit' -e '^Exiting' -e '^$'
else
    RUSTFLAGS="--cfg p2sh_verif" cargo build --offline --target-dir target-verif >/dev/null 2>&1 || exit 2
    P2SH_VERIF_REPL_STDIN=1 ./target-verif/debug/p2sh < "$hist" 2>&1 |
    grep -v -e '^The p2sh' -e '^Type quit' -e '^Exiting' -e '^$'
fi
exit 0
