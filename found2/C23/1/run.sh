#!/bin/bash
cd "$(dirname "$0")/../.." || exit 2
cargo build --offline >/dev/null 2>&1 || exit 2
D=FOUND/1

# what the REPL prints for the history (the only line that prints is the last one)
repl_out=$(bash $D/repl.sh $D/history.txt)
# what the last line prints at the end of a script made of the same lines
script_out=$(./target/debug/p2sh -c "$(cat $D/history.txt)" 2>&1)

echo "REPL   : $repl_out"
echo "script : $script_out"
[ -n "$repl_out" ] || { echo "could not drive the REPL"; exit 2; }
if [ "$repl_out" != "$script_out" ]; then
    echo "VIOLATION: the last line prints '$repl_out' at the REPL and '$script_out' in the script"
    exit 1
fi
echo "property holds on this history"
exit 0
