#!/bin/bash
cd "$(dirname "$0")/../.." || exit 2
cargo build --offline >/dev/null 2>&1 || exit 2
P=./target/debug/p2sh
D=FOUND/1
viol=0
# literal patterns of another kind simply do not match (reference behaviour)
out=$($P $D/lit.p2 2>&1)
n=$(printf '%s\n' "$out" | grep -c -- '-> other$')
if [ "$n" -ne 7 ]; then echo "unexpected: literal-pattern table changed"; printf '%s\n' "$out"; fi
# range patterns of another kind: the match must run the default arm / yield null
for f in $D/range_*.p2; do
  out=$($P "$f" 2>&1)
  a=$(printf '%s\n' "$out" | grep -c '^range .* -> other$')
  b=$(printf '%s\n' "$out" | grep -c '^range-nodefault .* -> null$')
  if [ "$a" -ne 1 ] || [ "$b" -ne 1 ]; then
    echo "VIOLATION in $f:"; printf '%s\n' "$out"
    viol=1
  fi
done
exit $viol
