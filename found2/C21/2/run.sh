#!/bin/bash
cd "$(dirname "$0")/../.." || exit 2
cargo build --offline >/dev/null 2>&1 || exit 2
got=$(printf 'abc\ndef' | ./target/debug/p2sh FOUND/2/prog.p2 2>&1)
want='[0x61, 0x62, 0x63, 0xa]
[0x64, 0x65, 0x66]'
echo "got:  $got"
echo "want: $want"
if [ "$got" = "$want" ]; then
    exit 0
fi
exit 1
