#!/usr/bin/perl
# Runs p2sh with stdin = read end of a pipe whose file description is O_NONBLOCK
# (as left behind by e.g. a node.js / ssh / tmux parent that shares the pipe).
# Delivers the content "abcdef" in two chunks: "abc" before the first read call,
# "def" after that call has returned; then closes the pipe.
use strict; use warnings; use Fcntl;
my ($bin, $script) = @ARGV;
pipe(my $r, my $w) or die;
fcntl($r, F_SETFL, fcntl($r, F_GETFL, 0) | O_NONBLOCK) or die;
syswrite($w, "abc");
pipe(my $er, my $ew) or die;
my $pid = fork();
die unless defined $pid;
if ($pid == 0) {
    close $w; close $er;
    open(STDIN, "<&", $r) or die;
    open(STDERR, ">&", $ew) or die;
    exec($bin, $script) or die;
}
close $r; close $ew;
# wait (at most 10 s) until the script reports that its first read call returned
my $rin = ''; vec($rin, fileno($er), 1) = 1;
select($rin, undef, undef, 10);
syswrite($w, "def");
close $w;
waitpid($pid, 0);
