#!/bin/bash
cd "$(dirname "$0")/../.." || exit 2
cargo build --offline >/dev/null 2>&1 || exit 2
got=$(perl FOUND/1/feed.pl ./target/debug/p2sh FOUND/1/collect.p2)
want='[0x61, 0x62, 0x63, 0x64, 0x65, 0x66]'
echo "got:  $got"
echo "want: $want"
if [ "$got" = "$want" ]; then
    exit 0
fi
exit 1
