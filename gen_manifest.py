#!/usr/bin/env python3
"""Generates MANIFEST.json from the table below (kept in one place so it stays valid)."""
import json, os
HERE = os.path.dirname(os.path.abspath(__file__))

# id -> dict(level, text, note, technique, design_ref)   (only properties whose check is built)
CLAIMED = {
 "C01": dict(level="model_checking", design="4.1",
   text="Exhaustive enumeration of bounded source-text spaces (all strings over a 54-character alphabet up to length 3/4 plus a 20-character core one longer; all sequences over a 66-token alphabet up to length 3/4 plus a 24-token core one longer; 13 nesting constructs x depth 1..64 x 4 endings; the complete one-token-edit neighbourhood of every seed program), each run through the real Scanner/Parser/Compiler in watchdogged worker processes; plus every <=2-token tail run through the binary for 'diagnostics => not executed'.",
   note="Texts outside the alphabets/length bounds are not covered (no sampling). Non-termination is decided up to a 5 s per-case horizon. Trusts rustc/cargo and the harness's own enumerators.",
   technique="bounded exhaustive input enumeration on the real front end (stateless exploration, crash/hang attribution per case)"),
}
CLAIMED.update({
 "C06": dict(level="model_checking", design="4.6",
   text="Exhaustive table: 30 representative values (every kind, zero/non-zero, empty/non-empty, NaN, -0.0, smallest subnormal, closure, builtin, error object) in every truthiness position (!v, if, if !v, while, && and || left operand, filter pattern with an action through the binary) and all 30x30 ordered pairs for a && probe(b) and a || probe(b) with a recording probe on the right operand; operands are injected into the real VM as objects; oracle = the statement's table.",
   note="Values outside the representative set are not covered. Filter position: only 'action runs iff truthy' is compared.",
   technique="exhaustive enumeration of value x position and value-pair tables on the real compiler+VM"),
 "C09": dict(level="model_checking", design="4.9",
   text="Exhaustive operator x operand-pair table: 16 binary operators over all ordered pairs and 3 unary operators over all elements of 44 (thorough: 85) boundary values, each once with operands injected as objects and once written as source literals, compared with a transcription of the statement's numeric/typing model (wrapping i64/u8, IEEE doubles, errors for every other combination).",
   note="Trusts the reference model mc/src/refval.rs. Combinations the statement does not pin (byte vs int/float comparison, bitwise ops on bytes, int*string) are counted as skipped_unspecified; a panic there is still reported.",
   technique="exhaustive enumeration of operator x boundary-operand pairs against a reference model"),
 "C10": dict(level="model_checking", design="4.10",
   text="(i) all 34x34 ordered key pairs x 12 access programs with the VM's own k1==k2 as oracle (differential); (ii) explicit-state breadth-first search to a fixpoint over insert/index-assignment histories on 8 mutually colliding keys x 2 values (1125 canonical states, 36000 transitions), each transition replayed from scratch on a fresh real map and probed with every key through get/contains/len against an association-list model.",
   note="Canonical state = association list including which key object is stored (sound: a map's future is a function of its stored pairs). Keys outside the domain are not covered.",
   technique="explicit-state BFS over operation histories with canonical-state de-duplication + exhaustive pair table"),
})
CLAIMED.update({
 "C02": dict(level="model_checking", design="4.2",
   text="Exhaustive program enumeration against a reference evaluator: E1 all applications of 27 operators/constructs to probe-call leaves (7-value domain) at depth 1 and all depth-2 nestings in both operand positions (value and evaluation order of every operand position observed); E2 all sequences of <=3 (thorough 4) statements from a pool of 67 concrete statements that place names, closures, recursion, containers, match, jumps and returns both validly and invalidly; F return inside filter actions. Observation sequence, final value, runtime-error presence and compile-time rejection are compared for every program.",
   note="Trusts RefEval (mc/src/refeval.rs, refval.rs, refbuiltins.rs), derived from the statements, not the code. Programs the statements leave open are counted as skipped_unspecified. Programs beyond the size bounds are not covered.",
   technique="bounded exhaustive program enumeration, differential against a reference interpreter"),
 "C04": dict(level="model_checking", design="4.4",
   text="Every scope skeleton (ordered forest) with <=4 (thorough 5) nodes and depth <=3 over 10 node kinds (let x/y, write, block, function, function with shadowing parameter, closure, returned closure called later, recursive function, recursion through a nested helper closure); in family V every visible name is observed after every statement and every function is called right after its definition and again later; family I adds one use at every position where the name is not visible and expects a compile error. Oracle: RefEval's lexical resolver and capture-by-value semantics.",
   note="Trusts RefEval's scoping/capture rules (Appendix A of DESIGN.md). Skeletons beyond the bounds are not covered.",
   technique="bounded exhaustive enumeration of scope skeletons, differential against a reference interpreter"),
 "C05": dict(level="model_checking", design="4.5",
   text="Three exhaustive tables against RefEval: match (every scrutinee value of 5 kinds through a recording probe x every pattern alternative: literals, all ranges incl. empty/reversed, 2- and 3-alternative combinations, default; 3 body shapes; one- and two-arm matches; all mixed-kind arm pairs), if chains (1-3 conditions over truthiness representatives x 5 branch shapes x with/without else), loop nests (depth 1-3 of while/loop x labels x one break/continue to every visible or unknown label at every position x every iteration index of a 3-wide counter grid).",
   note="Trusts RefEval. Negative integer patterns cannot be written in the grammar; range patterns against a scrutinee of another kind are counted as unspecified.",
   technique="exhaustive table enumeration of control-flow programs, differential against a reference interpreter"),
})
CLAIMED.update({
 "C03": dict(level="model_checking", design="4.3",
   text="Every shape over the 18 binary operators (all ordered pairs in both nesting positions; all five shapes of three operators over an 8-operator subset, all 18 in thorough), every prefix operator against every binary operator, itself, index and call, postfix chains, and assignment (chained, index targets, right-hand sides starting with a prefix operator, a group or a postfix expression) is rendered minimally and fully parenthesised; both texts run on the real pipeline for every leaf assignment and must agree in value/error and side effects (deciding, differential); the real parser's own fully parenthesised rendering of both texts must equal the intended tree (structural).",
   note="Trusts the harness's transcription of docs/language/expression-precedence.md. Trees deeper than three binary operators are not covered.",
   technique="exhaustive enumeration of expression shapes x leaf assignments, differential minimal-vs-parenthesised on the real parser/compiler/VM"),
 "C07": dict(level="model_checking", design="4.7",
   text="Explicit-state exploration of the compiled bytecode: for each of ~9500 programs (28 statement contexts keeping 0-3 operands pending x 5 jump-carrying fillers x 4 loop shapes x every break/continue x 3 positions; 49 kinds of looped statements at top level and inside a function; all <=2-statement sequences of the C02 pool) the graph over (function, ip, operand-stack height) is explored with both branch edges taken, i.e. to a fixpoint covering every iteration count; invariants: one height per ip, never negative, jumps land on instruction boundaries, height 0 at every top-level statement boundary. The model is bound to the code by replaying every program's concrete VM trace (hook) against the explored graph; looping programs are re-run for 5000 (thorough 12000) iterations and must not overflow.",
   note="The stack-effect table is a model of the implementation; every concrete trace is checked against it and, on a mismatch, the property is decided on the concrete trace itself (a mismatch with a balanced trace is a machinery error, exit 2). One known finding (jump-with-pending-operands) is matched by an exact defect model.",
   technique="explicit-state model checking of the bytecode control-flow graph (fixpoint over stack heights) with trace conformance against the real VM"),
})
CLAIMED.update({
 "C13": dict(level="model_checking", design="4.13",
   text="Exhaustive placement table: 23 single-line failing constructs (division/modulo by zero, index/key errors, bad operand kinds for binary/relational/unary/bitwise/shift operators, calling a non-function, wrong arity, failing builtins incl. nested and wrong-arity, property on a non-packet, $x with a non-integer, ...) x every sequence of <=3 preceding items out of 11 (blank line, comments, let, multi-line function/if/string/array, filter statement, if/else and match expression statements) x 7 contexts (top level, function called from a later line, closure, block, nested function, if branch, loop body) in-process via RTError.line, plus the filter-action context through the binary; the reported line must be the line where the harness placed the construct.",
   note="CRLF sources are not generated. Constructs spanning several lines are outside the property.",
   technique="exhaustive enumeration of construct x preceding-line histories x context on the real pipeline"),
})
CLAIMED.update({
 "C14": dict(level="model_checking", design="4.14",
   text="(i) codec round trip exhaustive over all 48 opcodes and every operand value of their widths (thorough: the full 65536x256 product for Closure); (ii) trace conformance: programs executing all 48 opcodes (asserted), incl. indices and jump targets beyond 2^8 and 2^15, are run with the VM trace hook and every step must continue at ip + 1 + operand widths of the definitions table or at the decoded jump target, jumps landing on instruction boundaries; (iii) limit grid at limit-1..limit+2 around 2^8, 2^15 and 2^16 for constants, globals, jump targets of every jump-emitting construct, array/map elements, locals, call arguments, captured variables, and constant/global indices accumulated over chained compilation units (REPL style): reject what cannot be encoded, everything accepted must equal its closed-form result.",
   note="Limits are probed at limit-1..limit+2 only. In the quick tier the 2^16 boundary of constant/global indices is reached through chained units (one 65536-statement program is quadratic to compile); thorough also compiles the single huge programs.",
   technique="exhaustive codec enumeration + explicit-state trace conformance against the VM + exhaustive limit grid"),
})
CLAIMED.update({
 "C08": dict(level="model_checking", design="4.8",
   text="Invariant-only exhaustive sweeps on the real code in watchdogged worker processes: every one of the 47 builtins x arity 0..3 x every tuple of 16 argument kinds (incl. file, pcap, packet and error objects); every builtin x every single and pair of 67 boundary values; the complete C09 operator x operand table; 145 recursion/frame/locals programs around the 4096 frame and stack limits; 93 filter programs (jumps/returns at every action position, every truthiness value as pattern, filters nested in functions/blocks/loops/filters, failing patterns/actions) through an in-process copy of main.rs's filter loop and through the binary (also on a 5000-packet stream); exit statuses. Never a panic, abort, signal or hang.",
   note="exit(n) and sleep(n != 0) are not called in-process. Non-termination is decided up to a 30 s per-case horizon. Memory-exhausting requests and self-containing containers are excluded by the property.",
   technique="bounded exhaustive enumeration of calls/programs with a crash/hang invariant (catch_unwind + per-case process watchdog)"),
})
CLAIMED.update({
 "C11": dict(level="model_checking", design="4.11",
   text="Exhaustive contract table: 23 pure builtins x arity 0..3 x every tuple of 15 argument kinds through the real VM, then every documented signature x boundary values (singles and pairs of 69 values), compared with a transcription of docs/language/builtins.md (documented kinds => documented result incl. argument mutation; anything else => runtime error whose message starts with the builtin's name); laws over completely enumerated domains: int(str(n)) for |n|<=4096 and limits, float(str(x)) for k/8, |k|<=4096 and extreme floats, UTF-8/chars round trips for all strings of length<=3 over 6 characters, decode_utf8 on all byte arrays of length<=3 over 8 bytes, sort on all arrays of length<=5 over 6 comparable domains plus long arrays.",
   note="Trusts mc/src/refbuiltins.rs. Results the documentation does not pin are only required not to crash and to name the builtin when they fail.",
   technique="exhaustive enumeration of builtin x arity x argument-kind tuples and law domains against a contract table"),
})
CLAIMED.update({
 "C12": dict(level="model_checking", design="4.12",
   text="Exhaustive grammar enumeration against a reference renderer written from the statement: every specifier of index x (none | ':' (10 fills incl. the type letters and ':' x 2 alignments | no alignment) x 6 widths x 5 types) = 4084 specifiers between literal text x 13 argument values; every string of <=3 (thorough 4) segments over a 31-symbol alphabet (ASCII/non-ASCII literals, escapes, 26 representative specifiers) x 7 argument lists; 42 malformed strings (no crash); print/println/eprint/eprintln on every <=2-segment string x 7 argument lists with the process's own stdout/stderr redirected into a file: exactly format's text (+newline) must be written and its byte length returned.",
   note="The unpadded text of non-integer, non-string values is taken from the implementation's own format(\"{}\", v) (the statement does not define it). Radix formats of negative/non-integer values and non-ASCII text in padded specifiers are unspecified.",
   technique="exhaustive enumeration of format strings over a bounded grammar against a reference renderer"),
})
CLAIMED.update({
 "C15": dict(level="model_checking", design="4.15",
   text="For each of ~1000 structured frames (5 link chains x IPv4 with every IHL 0..15 / IPv6 / none x UDP / other / TCP with every data offset / IPv6-in-IPv4, position-pattern bytes) truncated at every byte offset (quick: every offset of a core set, every 4th offset of the rest), an explicit-state breadth-first search over the read-access alphabet ($0..$11 and 12 properties applied to every cached layer object) runs to a fixpoint over the lazily filled layer caches (canonical state = chain of cached layer kinds; each transition replays the history on a fresh packet obtained through the real pcap parser); in every reachable state the one serialisation routine used by pcap_write, write and filter-mode output must return the record header plus exactly the captured bytes.",
   note="Canonical state soundness: serialisation and later reads depend only on the immutable captured bytes and the cache chain. Frames with more than two VLAN tags or other tunnels are not covered.",
   technique="explicit-state BFS to a fixpoint over cache states per frame x truncation point, invariant checked in every state"),
 "C16": dict(level="model_checking", design="4.16",
   text="Exhaustive field decoding against an RFC bit-layout table: 41 header fields x 3 backgrounds x every value of fields <= 8 bits (thorough <= 16 bits) and boundary/walking-bit values of wider ones, with every other field of the same header re-read each time; payload of every layer for every header length; layer dispatch for all 65536 EtherTypes (Ethernet and VLAN level) and all 256 IPv4 protocols / IPv6 next headers through $n and the matching named property, at full length and truncated inside the selected layer; pcap global- and record-header fields. Frames reach the code through real pcap files and the real parser.",
   note="Trusts the layout table in mc/src/pkt.rs (TCP flags = 8 control bits). A named layer property the selector does not select must yield null (also after $n filled the cache, and $n must be unaffected by earlier named reads). $11, header lengths < 5 and 802.1ad/QinQ EtherTypes are unspecified.",
   technique="exhaustive enumeration of field values and dispatch selectors against a layout table"),
})
CLAIMED.update({
 "C17": dict(level="model_checking", design="4.17",
   text="Single assignments: every writable header property x every in-range value (all values for fields <= 12 bits, boundary + walking bits otherwise, addresses as text) x 3 backgrounds x the frame containing the layer, with four checks each (immediate read-back; serialise, re-parse through a real pcap file, read back; every other readable property of every layer and of the record unchanged; serialised bytes differ only inside the field's bit range of the layout table and hold the value); invalid values (out-of-range integers, every other value kind): error with packet unchanged, or exactly the value modulo 2^w; record fields; histories: explicit-state BFS over sequences of <= 2 (thorough 3) assignments with a read-everything step in between, canonical state = model bytes, each history replayed on a fresh packet.",
   note="Trusts the layout table. After assigning ihl/dataoff the re-parsed layer may be truncated; only the serialised bits are demanded there.",
   technique="exhaustive enumeration of property x value assignments plus explicit-state BFS over assignment histories against a byte-level model"),
 "C18": dict(level="model_checking", design="4.18",
   text="MAC: all 256 values of each octet x 3 backgrounds x case x 1-2 digit groups on eth.src/dst; IPv4: all 256 values of each octet x 3 backgrounds; IPv6: all 2^8 zero/non-zero group patterns x every legal rendering (uncompressed, every run of >= 1 zero groups at every position replaced by '::' incl. leading/trailing/all-zero, lower/upper case, with/without leading zeros); stored bytes must equal the reference parser's, nothing else may change, and the displayed text must denote and store the same address again; ~250 malformed texts that the reference parser also rejects must raise a runtime error and leave the frame unchanged.",
   note="std::net::{Ipv4Addr,Ipv6Addr} and a 6-group hex parser are the reference. Forms whose status differs between conventions are not generated.",
   technique="exhaustive enumeration of address renderings against reference parsers"),
})
CLAIMED.update({
 "C19": dict(level="model_checking", design="4.19",
   text="Per pcap file (every tuple of <= 3 (thorough 5) record sizes around the 8 KiB buffer x both magics x 3 snaplens) an explicit-state breadth-first search over call sequences of pcap_read_next / pcap_read_all(f[, n]) against a Vec<Record> + cursor model (canonical state = cursor, merged states' futures cross-checked, each transition replayed on a freshly opened handle, packets compared field by field); write of all packets with pcap_write and read-back; a three-record file cut at every byte offset and 40 single-field header corruptions: exactly the records before the damage, then null or an error object, never a crash.",
   note="Byte-swapped files are outside the statement. pcap_read_all on a damaged file may answer with an error object.",
   technique="explicit-state BFS over read histories with a cursor model + exhaustive truncation/corruption enumeration"),
})
CLAIMED.update({
 "C21": dict(level="model_checking", design="4.21",
   text="Files of 16 sizes around the 8 KiB buffer (binary counter pattern with newlines at the buffer boundaries, UTF-8 text with 2-4 byte characters straddling them): per file an explicit-state breadth-first search over call sequences of depth <= 3 from read(f), read(f, n), read_line, read_to_string against a content + cursor model (canonical state = cursor, merged states cross-checked, every transition on a freshly opened handle, a final read(f) must return exactly the rest); pipes: 8 call sequences x every composition of the content into <= 3 chunks from {1, 100, 4096, 4097, 8192, rest} on a FIFO opened with the real open and on stdin of the binary, the feeder writes the next chunk only when the pipe has been drained (FIONREAD == 0), each schedule run twice with identical observations demanded; writes: mode (w, a, x, r, none) x target (missing, existing) x sequences of <= 2 (thorough 3) writes of sizes 0/1/8191/8192/8193 as string / byte array / byte x (handle closed | flush with the handle open): file content = old-content rule of the mode + the bytes written.",
   note="The chunk schedule is owned by the harness (feeder waits for an empty pipe), so short reads are deterministic. Terminal input and sockets are not covered.",
   technique="explicit-state BFS over read histories with a cursor model + exhaustive enumeration of pipe chunk schedules and write sequences"),
 "C22": dict(level="fault_enumeration", design="4.22",
   text="Fault alphabet (ENOENT, EISDIR at open or at the first read, EEXIST under mode x, ENOSPC via /dev/full at flush or when the 8 KiB buffer spills, ENOTDIR, empty / 10-byte / garbage / half-record pcap content) x 9 openers (open and pcap_open in every mode) x every sequence of <= 2 (thorough 4) follow-up calls appropriate to the handle, each as a script through the real compiler and VM: the script must reach its end with no runtime error or panic, every call that meets the failure must return a value with is_error true and every other call must not; pcap_stream(stdin) with 5 bad inputs and write/flush on the stdout handle with standard output on /dev/full through the binary.",
   note="EACCES cannot be provoked (the sandbox runs as root). Argument-kind misuse is C11's. The harness tracks the pending byte count of the 8 KiB write buffer to know which call hits ENOSPC.",
   technique="exhaustive enumeration of fault x call-sequence combinations run through the real VM"),
})
CLAIMED.update({
 "C20": dict(level="model_checking", design="4.20",
   text="Every run is the p2sh binary on a script with a pcap stream on stdin, compared byte for byte with an explicit model of filter mode (non-filter statements once and first; per packet every filter in source order with NP/PL/WL/TSS/TSU of that record; an action-less true filter appends the packet as modified so far; the end action once with NP = k). H: 41 global headers (magic us/ns x snaplen 40/43 (= a captured length)/96/65535/262144 x linktype 1/105 x version 2.4/2.3, one with zone/sigfigs) x k packets x 3 programs x (-s | no -s); L: every ordered list of <= 2 (thorough 3) filters from a 16-filter alphabet (patterns over NP/PL/WL/TSS/TSU and fields, actions updating globals and locals, field assignments seen by later filters) x (end | none) on a 3-packet stream; S: lists of <= 1 (thorough 2) x end x -s x k in 0..=3 (thorough 0..=5); P: 3 preamble shapes. Without -s stdout must equal the input's 24-byte global header + the model's records; with -s stdout must equal exactly the printed text.",
   note="Patterns and actions are closed-form so the harness can evaluate them; the expression language at large is C02-C13's. Text printed to stdout without -s is not generated.",
   technique="exhaustive enumeration of filter lists x streams through the binary against an explicit model of the mode"),
 "C23": dict(level="model_checking", design="4.23",
   text="Every history of exactly 2 (thorough 3) lines over a 19-line alphabet and of exactly 3 (thorough 4) lines over its 11-line core (definitions, redefinitions, functions, uses, a shadowed builtin, parse errors, compile errors that would redefine a name or fail inside a function body, lines failing at run time after a definition), each as one run of the real run_prompt loop through the cfg-guarded scripted line source, with a marker line after each line to delimit its output; thorough adds 12-line histories with every pair of lines at two positions. Oracle per line (differential, as the statement is phrased): the script made of the accepted lines so far (a failing line contributes its statements before the failure) plus the line, compiled and run in-process: rejected => nothing on stdout, a message on stderr, no effect; value => exactly the echo of command mode; runtime error => the same message.",
   note="The interactive line editor (continuation lines, history, completion) is not driven. A name bound after the failing statement of a line is never read.",
   technique="exhaustive enumeration of REPL line histories (explicit-state exploration of the prompt loop) with a differential script oracle"),
 "C24": dict(level="model_checking", design="4.24",
   text="Exhaustive grid: 21 programs (final expression statement null / non-null of every value kind incl. falsey ones, final let / fn / loop statement, runtime error after output, parse error, compile error, exit(3), stderr output, multi-line), each preceded by an argv dump, x 9 argument vectors (empty, unicode, spaces, empty string, dash-prefixed after --, a second --, -c after --, 40 arguments) x 4 invocation modes (script file, -c, script with a #! first line passed as argument, the same script executed directly) + the REPL. Oracle: script argv = [path] + arguments; #! scripts give the same stdout, stderr (line numbers + 1) and status; -c gives argv = positional arguments, the same stdout plus the display text of the final expression statement's value when it was reached and is not null, same stderr and status; REPL argv is empty.",
   note="Dash-prefixed arguments without a preceding -- are clap usage errors in every mode and not generated.",
   technique="exhaustive enumeration of program x argv x invocation-mode grid with a differential oracle between modes"),
})
# additions of the third seeded round (DESIGN 8.13), appended to the descriptions above
EXTRA = {
 "C02": "The E2 pool also holds the counter closure whose captured local lives in a nested block of the enclosing function and is written inside a nested block of the closure.",
 "C03": "Non-initial parser states: every non-assignment shape is also embedded, minimal and fully parenthesised, in 17 contexts (after a match with/without an explicit default arm, inside arm bodies, as scrutinee, condition, block body, element, map value, argument, filter pattern, filter action, after filters) and the parser's fully parenthesised rendering of both must agree.",
 "C07": "The looped statements include map literals with repeated keys, keys equal across kinds and keys computed from the loop counter, and empty literals.",
 "C08": "The complete packet read sweep of C15 (frame grid incl. QinQ x every cut length x named and $n read sequences) is re-run with the crash-only oracle.",
 "C10": "Thorough tier: 66 keys (ends of the i64 range and the doubles they convert to, +-2^53+-1, infinities, smallest subnormal, NUL char/string, byte/int/float/char look-alikes, deeper and mixed arrays) = 4,356 ordered pairs x 14 access programs, and the BFS over 11 colliding keys (adds [[0.0]], [[-0.0]], [[0]]) to its fixpoint (12,231 states, 411,840 replayed transitions).",
 "C11": "sort: a tenth domain of negative fractions mixed with the integers on both sides of them.",
 "C22": "Damaged captures: a record announcing a caplen above the snaplen in the middle or at the start of an otherwise valid capture, with a record-stream model deciding which read meets it (the call that meets it with nothing to return must return an error object; after a pcap_read_all that returned the packets before it, the next read must); also on pcap_stream(stdin) through the binary.",
 "C23": "The slot family's stored closure uses literals of its own and the later definition line adds constants, so a constant pool cut back after a runtime error is observable.",
}
for _k, _v in EXTRA.items():
    CLAIMED[_k]["text"] += " " + _v

NOT_YET = "check not built yet in this round (machinery under construction; see DESIGN.md section 4 for the planned check)"

props = [json.loads(l) for l in open(os.path.join(HERE, "properties.jsonl"))]
checks, na = [], []
for p in props:
    pid = p["id"]
    if pid in CLAIMED:
        c = CLAIMED[pid]
        checks.append({
            "property_id": pid,
            "quick_cmd": f"./check {pid} quick",
            "thorough_cmd": f"./check {pid} thorough",
            "evidence_file": f"/verif/evidence/{pid}.json",
            "replay_cmd_template": f"./check {pid} --replay {{path}}",
            "engine": "p2sh-mc",
            "level_claimed": {"category": c["level"], "text": c["text"], "design_ref": "DESIGN.md section " + c["design"]},
            "level_note": c["note"],
            "technique": c["technique"],
        })
    else:
        na.append({"property_id": pid, "reason": NOT_YET})
m = {
 "version": 1,
 "setup_cmd": "./check --build",
 "hooks": {
   "guard": "p2sh_verif",
   "enable": "RUSTFLAGS=\"--cfg p2sh_verif\" cargo build (hooked binary, into /verif/.cache/target-bin-*); the in-process harness /verif/mc compiles /repo/src/** via #[path] with cfg p2sh_verif set by its build.rs",
   "baseline_off_cmd": "cd /repo && cargo test --workspace --no-fail-fast --offline",
   "source_commits": ["7f14a35", "d9ef2da"],
   "add_only": True,
 },
 "engines": [{
   "name": "p2sh-mc", "path": "/verif/mc",
   "serves_properties": sorted(CLAIMED.keys()),
   "kind_free_text": "Rust harness that compiles the repository's own modules from the working tree and explores indexed finite case spaces exhaustively in watchdogged worker subprocesses (explicit enumeration of inputs / BFS over operation histories with canonical-state de-duplication); e2e cases drive the hooked binary",
 }],
 "checks": checks,
 "not_applicable": na,
 "notes": "Exit codes of ./check: 0 held, 1 violation (VIOLATION line), 2 machinery failure. known_findings.json lists repaired (fixed) and recorded (known) defects.",
}
json.dump(m, open(os.path.join(HERE, "MANIFEST.json"), "w"), indent=1)
print("claimed:", len(checks), "not_applicable:", len(na))
