#!/usr/bin/env python3
"""Generates MANIFEST.json from the table below (kept in one place so it stays valid)."""
import json, os
HERE = os.path.dirname(os.path.abspath(__file__))

# id -> dict(level, text, note, technique, design_ref)   (only properties whose check is built)
CLAIMED = {
 "C01": dict(level="model_checking", design="4.1",
   text="Exhaustive enumeration of bounded source-text spaces (all strings over a 54-character alphabet up to length 3/4 plus a 20-character core one longer; all sequences over a 66-token alphabet up to length 3/4 plus a 24-token core one longer; 13 nesting constructs x depth 1..64 x 4 endings; the complete one-token-edit neighbourhood of every seed program), each run through the real Scanner/Parser/Compiler in watchdogged worker processes; plus every <=2-token tail run through the binary for 'diagnostics => not executed'.",
   note="Texts outside the alphabets/length bounds are not covered (no sampling). Non-termination is decided up to a 5 s per-case horizon. Trusts rustc/cargo and the harness's own enumerators.",
   technique="bounded exhaustive input enumeration on the real front end (stateless exploration, crash/hang attribution per case)"),
}
NOT_YET = "check not built yet in this round (machinery under construction; see DESIGN.md section 4 for the planned check)"

props = [json.loads(l) for l in open(os.path.join(HERE, "properties.jsonl"))]
checks, na = [], []
for p in props:
    pid = p["id"]
    if pid in CLAIMED:
        c = CLAIMED[pid]
        checks.append({
            "property_id": pid,
            "quick_cmd": f"./check {pid} quick",
            "thorough_cmd": f"./check {pid} thorough",
            "evidence_file": f"/verif/evidence/{pid}.json",
            "replay_cmd_template": f"./check {pid} --replay {{path}}",
            "engine": "p2sh-mc",
            "level_claimed": {"category": c["level"], "text": c["text"], "design_ref": "DESIGN.md section " + c["design"]},
            "level_note": c["note"],
            "technique": c["technique"],
        })
    else:
        na.append({"property_id": pid, "reason": NOT_YET})
m = {
 "version": 1,
 "setup_cmd": "./check --build",
 "hooks": {
   "guard": "p2sh_verif",
   "enable": "RUSTFLAGS=\"--cfg p2sh_verif\" cargo build (hooked binary, into /verif/.cache/target-bin-*); the in-process harness /verif/mc compiles /repo/src/** via #[path] with cfg p2sh_verif set by its build.rs",
   "baseline_off_cmd": "cd /repo && cargo test --workspace --no-fail-fast --offline",
   "source_commits": [],
   "add_only": True,
 },
 "engines": [{
   "name": "p2sh-mc", "path": "/verif/mc",
   "serves_properties": sorted(CLAIMED.keys()),
   "kind_free_text": "Rust harness that compiles the repository's own modules from the working tree and explores indexed finite case spaces exhaustively in watchdogged worker subprocesses (explicit enumeration of inputs / BFS over operation histories with canonical-state de-duplication); e2e cases drive the hooked binary",
 }],
 "checks": checks,
 "not_applicable": na,
 "notes": "Exit codes of ./check: 0 held, 1 violation (VIOLATION line), 2 machinery failure. known_findings.json lists repaired (fixed) and recorded (known) defects.",
}
json.dump(m, open(os.path.join(HERE, "MANIFEST.json"), "w"), indent=1)
print("claimed:", len(checks), "not_applicable:", len(na))
