#!/bin/bash
cd "$(dirname "$0")/../.." || exit 2
cargo build --offline >/dev/null 2>&1 || exit 2
D=FOUND/1
BIN=./target/debug/p2sh
PCAP=$D/two_packets.pcap
bad=0

# (a) a truthy non-boolean pattern without an action must behave like `@ true`:
#     every packet is written to stdout.
ref=$($BIN $D/pass_true.p2 < $PCAP 2>/dev/null | cksum)
got=$($BIN $D/pass_truthy.p2 < $PCAP 2>$D/.err_a | cksum)
if [ "$ref" != "$got" ] || [ -s $D/.err_a ]; then
  echo "VIOLATION (a): '@ 1' does not pass packets like '@ true'"
  echo "  '@ true' output cksum: $ref"
  echo "  '@ 1'    output cksum: $got"
  echo "  stderr: $(head -1 $D/.err_a)"
  bad=1
fi

# (b) a falsey non-boolean pattern with an action must behave like `@ false {..}`:
#     action skipped, nothing else happens, later filters still run.
ref=$($BIN -s $D/false_then_next.p2 < $PCAP 2>&1)
got=$($BIN -s $D/falsey_then_next.p2 < $PCAP 2>&1)
if [ "$ref" != "$got" ]; then
  echo "VIOLATION (b): '@ 0 {..}' does not behave like '@ false {..}'"
  echo "  with false: $(echo "$ref" | tr '\n' '|')"
  echo "  with 0    : $(echo "$got" | tr '\n' '|')"
  bad=1
fi
rm -f $D/.err_a
exit $bad
