#!/bin/bash
# Re-run the counterexample demonstrations that independent sub-agents produced against earlier trees
# (found/<ID>/<n>/run.sh: exit 1 = the violation manifests, 0 = the property holds on the demo inputs).
# They expect to live in <worktree>/FOUND/<n>/; a scratch tree of symlinks to /repo provides that.
V=/verif; W=$V/.cache/found-tree
rm -rf $W; mkdir -p $W/FOUND $V/.cache/target-found $V/.cache/target-found-verif
for x in src Cargo.toml Cargo.lock docs examples; do ln -s /repo/$x $W/$x; done
ln -s $V/.cache/target-found $W/target; ln -s $V/.cache/target-found-verif $W/target-verif
( cd $W && cargo build --offline >/dev/null 2>&1 )
for d in $(ls -d $V/found/C*/[0-9]* | sort); do
  id=$(basename $(dirname $d)); n=$(basename $d)
  rm -rf $W/FOUND/*; cp -r $d $W/FOUND/$n
  ( cd $W/FOUND/$n && timeout 600 bash $W/FOUND/$n/run.sh >/dev/null 2>&1 ); rc=$?
  title=$(head -1 $d/README.md | sed 's/^# *//' | cut -c1-90)
  echo "$id/$n exit=$rc  $title"
done
rm -rf $W
