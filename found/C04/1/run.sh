#!/bin/bash
# exit 1 = violation manifests, 0 = property holds on these inputs
cd "$(dirname "$0")/../.." || exit 2
cargo build --offline >/dev/null 2>&1 || exit 2
P=./target/debug/p2sh
D=FOUND/1
bad=0

# control: an ordinary function reads/writes the global 'f' by reference
out=$($P $D/control.p2 2>&1)
if [ "$out" != $'3\n1\n5' ]; then
    echo "control program misbehaves: $out"; exit 2
fi

# read: the global binding 'f' was reassigned to 3 before g() runs, so a
# by-reference read of 'f' inside the function must give 3
out=$($P $D/read.p2 2>&1)
echo "read.p2  -> $out   (expected 3)"
[ "$out" != "3" ] && bad=1

# write: the function assigns to the visible global binding 'once'
out=$($P $D/write.p2 2>&1)
echo "write.p2 -> $out   (expected 1 then 5)"
[ "$out" != $'1\n5' ] && bad=1

exit $bad
