#!/bin/bash
cd "$(dirname "$0")/../.." || exit 2
cargo build --offline >/dev/null 2>&1 || exit 2
P=./target/debug/p2sh
D=FOUND/2
# shebang.p2 = "#!/home/andr<0xE9>/bin/p2sh\n" + plain.p2  (0xE9 = Latin-1 e-acute, not valid UTF-8)
plain="$($P "$D/plain.p2" 2>&1)"
sheb="$($P "$D/shebang.p2" 2>&1)"
echo "plain  : [$plain]"
echo "shebang: [$sheb]"
if [ "$plain" != "$sheb" ]; then
    echo "VIOLATION: script does not run the same with a shebang first line"
    exit 1
fi
exit 0
