#!/bin/bash
cd "$(dirname "$0")/../.." || exit 2
cargo build --offline >/dev/null 2>&1 || exit 2
P=./target/debug/p2sh
D=FOUND/1
bad=0
# prog.p2 is `-1 + 2`  : file mode prints nothing, -c must print just "1"
# prog2.p2 is `-puts(3)`: both modes print "3" and the same runtime error
for f in prog.p2 prog2.p2; do
    text="$(cat "$D/$f")"
    file_out="$($P "$D/$f" 2>&1)"; file_rc=$?
    cmd_out="$($P -c "$text" 2>&1)"; cmd_rc=$?
    echo "== $f: text=[$text]"
    echo "file mode (rc=$file_rc): [$file_out]"
    echo "-c mode   (rc=$cmd_rc): [$cmd_out]"
    case "$f" in
        prog.p2)  expected_cmd="1" ;;           # file output (empty) + echoed value
        prog2.p2) expected_cmd="$file_out" ;;   # runtime error => nothing echoed
    esac
    if [ "$cmd_out" != "$expected_cmd" ] || [ "$cmd_rc" != "$file_rc" ]; then
        echo "VIOLATION: -c output differs from file-mode output (+ echo)"
        bad=1
    fi
done
exit $bad
