#!/bin/bash
cd "$(dirname "$0")/../.." || exit 2
cargo build --offline >/dev/null 2>&1 || exit 2
D=FOUND/1
T=$(mktemp -d)
BIN=./target/debug/p2sh
viol=0

# (a) an integer assigned to the layer property 'ipv4'
$BIN $D/a.p2 $D/in.pcap $T/a.pcap >$T/a.out 2>$T/a.err
cat $T/a.out $T/a.err
if grep -q '^assigned-without-error' $T/a.out; then
    # no runtime error was raised: then the packet must serialise as before
    # (or differ only inside "the field"); here the record shrinks from
    # 16+103 to 16+14+8 bytes while caplen still says 103
    if ! cmp -s <(tail -c +25 $D/in.pcap) <(tail -c +25 $T/a.pcap); then
        echo "VIOLATION (a): no error, record is now $(($(stat -c %s $T/a.pcap) - 24)) bytes instead of $(($(stat -c %s $D/in.pcap) - 24))"
        viol=1
    fi
    if grep -q 'Runtime error' $T/a.err; then
        echo "VIOLATION (a): other properties of the layer can no longer be read"
        viol=1
    fi
fi

# (b) a layer assigned to its own inner slot: serialising never terminates
$BIN $D/b.p2 $D/in.pcap $T/b.pcap >$T/b.out 2>$T/b.err
rc=$?
cat $T/b.out; head -c 300 $T/b.err
if grep -q '^assigned-without-error' $T/b.out && [ $rc -ne 0 ]; then
    echo "VIOLATION (b): no error on assignment, process died with status $rc while serialising"
    viol=1
fi
rm -rf $T
exit $viol
