#!/bin/bash
cd "$(dirname "$0")/../.." || exit 2
cargo build --offline >/dev/null 2>&1 || exit 2
D=FOUND/2
T=$(mktemp -d)
BIN=./target/debug/p2sh
viol=0
for v in 200 10; do
    echo "== caplen = $v (frame has 103 bytes)"
    $BIN $D/set.p2 $D/in.pcap $T/out.pcap $v 2>&1
    $BIN $D/reparse.p2 $T/out.pcap >$T/r.out 2>&1
    cat $T/r.out
    if ! grep -q "^reparsed caplen $v\$" $T/r.out; then
        echo "VIOLATION: caplen does not read back as $v after serialise + reparse"
        viol=1
    fi
    if ! grep -q "^reparsed eth.type 2048\$" $T/r.out; then
        echo "VIOLATION: eth.type no longer reads 2048 after serialise + reparse"
        viol=1
    fi
done
rm -rf $T
exit $viol
