#!/bin/bash
cd "$(dirname "$0")/../.." || exit 2
cargo build --offline >/dev/null 2>&1 || exit 2
D=FOUND/4
T=$(mktemp -d)
BIN=./target/debug/p2sh
viol=0
# IPv4 datagram is 20 bytes header + 8 bytes UDP + 10 bytes payload; ihl is a 4-bit field (0..15)
for v in 10 15; do
    echo "== ipv4.ihl = $v"
    $BIN $D/set.p2 $D/in.pcap $T/out.pcap $v 2>&1
    $BIN $D/reparse.p2 $T/out.pcap >$T/r.out 2>&1
    cat $T/r.out
    if ! grep -q "^reparsed ihl $v\$" $T/r.out; then
        echo "VIOLATION: ipv4.ihl does not read back as $v after serialise + reparse"
        viol=1
    fi
done
rm -rf $T
exit $viol
