#!/bin/bash
cd "$(dirname "$0")/../.." || exit 2
cargo build --offline >/dev/null 2>&1 || exit 2
out=$(./target/debug/p2sh FOUND/1/input.p2 2>FOUND/1/stderr.txt)
if [ "$out" == "$(cat FOUND/1/expected.txt)" ] && [ ! -s FOUND/1/stderr.txt ]; then
  echo "property holds: match yields null when no arm matches"
  exit 0
fi
echo "VIOLATION: expected"; cat FOUND/1/expected.txt
echo "--- got stdout:"; echo "$out"
echo "--- got stderr:"; cat FOUND/1/stderr.txt
exit 1
