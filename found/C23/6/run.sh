#!/bin/bash
# exit 1: violation manifests; exit 0: property holds on these inputs; exit 2: setup problem
cd "$(dirname "$0")/../.." || exit 2
D="FOUND/6"
cargo build --offline >/dev/null 2>&1 || exit 2
# REPL reading its lines from stdin needs the verification hook build
RUSTFLAGS="--cfg p2sh_verif" cargo build --offline --target-dir target-verif >/dev/null 2>&1 || exit 2
[ -x target-verif/debug/p2sh ] && [ -x target/debug/p2sh ] || exit 2

# stdout+stderr of a REPL session, without the 2 banner lines and the "\nExiting..." trailer
repl() { P2SH_VERIF_REPL_STDIN=1 ./target-verif/debug/p2sh < "$1" 2>&1 | tail -n +3 | head -n -2; }

# what the REPL printed for the LAST line of history.txt =
#   (output of the whole history) minus (output of the history without its last line)
head -n -1 "$D/history.txt" > "$D/.prev.txt"
all="$(repl "$D/history.txt")"
prev="$(repl "$D/.prev.txt")"
rm -f "$D/.prev.txt"
got="${all#"$prev"}"
got="${got#$'\n'}"

# what the equivalent script prints (script.p2 = previously accepted lines, each cut at
# its first runtime error, followed by the last line); -c mode echoes like the REPL does
want="$(./target/debug/p2sh -c "$(cat "$D/script.p2")" 2>&1 </dev/null)"

echo "REPL, last line : [$got]"
echo "script          : [$want]"
if [ "$got" != "$want" ]; then
  echo "VIOLATION: the REPL line does not print what the script prints"
  exit 1
fi
echo "property holds on this input"
exit 0
