#!/bin/bash
# exits 1 when the crash (panic / abort) manifests, 0 when every input ends normally
cd "$(dirname "$0")/../.." || exit 2
cargo build --offline >/dev/null 2>&1 || exit 2
ulimit -s 8192 2>/dev/null
bad=0
for f in deep_drop.p2 deep_equal.p2; do
  err=$(./target/debug/p2sh FOUND/6/$f 2>&1 >/dev/null </dev/null); rc=$?
  if [ $rc -ge 101 ] || echo "$err" | grep -q -e 'panicked at' -e 'has overflowed its stack'; then
    echo "FOUND/6/$f: crashed (status $rc): $(echo "$err" | grep -m1 -A1 -e 'panicked at' -e 'overflowed' | tr '\n' ' ')"
    bad=1
  else
    echo "FOUND/6/$f: ended normally (status $rc)"
  fi
done
exit $bad
