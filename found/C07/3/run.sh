#!/bin/bash
cd "$(dirname "$0")/../.." || exit 2
cargo build --offline >/dev/null 2>&1 || exit 2
P=./target/debug/p2sh
D=FOUND/3
out=$(timeout 30 $P $D/control.p2 2>&1)
[ "$out" = "7" ] || { echo "control failed: $out"; exit 2; }
bad=0
# 1. at top level (stack height 0) the statement pops a value it never pushed
out=$(timeout 30 $P $D/top.p2 2>&1)
echo "top.p2: $out"
if echo "$out" | grep -q "Stack underflow!"; then bad=1; fi
if ! echo "$out" | grep -q "after"; then bad=1; fi
# 2. inside a function the stack height drops by one per execution, so the
#    next push lands on the slot of local 'a'
out=$(timeout 30 $P $D/local.p2 2>&1)
echo "local.p2: $out (expected 7)"
[ "$out" = "7" ] || bad=1
exit $bad
