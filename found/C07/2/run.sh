#!/bin/bash
cd "$(dirname "$0")/../.." || exit 2
cargo build --offline >/dev/null 2>&1 || exit 2
P=./target/debug/p2sh
D=FOUND/2
bad=0
for f in dot_true dot_null dot_if dot_stdout dot_fn; do
    out=$(timeout 30 $P $D/$f.p2 2>&1)
    echo "$f.p2: $out"
    if echo "$out" | grep -q "Stack overflow!"; then
        bad=1
    fi
done
exit $bad
