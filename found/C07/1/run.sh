#!/bin/bash
cd "$(dirname "$0")/../.." || exit 2
cargo build --offline >/dev/null 2>&1 || exit 2
P=./target/debug/p2sh
D=FOUND/1
# control: an ordinary assignment statement in the same loop is balanced
out=$(timeout 30 $P $D/control.p2 2>&1)
[ "$out" = "5000" ] || { echo "control failed: $out"; exit 2; }
bad=0
for f in builtin_id call null_lit dollar if_expr; do
    out=$(timeout 30 $P $D/$f.p2 2>&1)
    echo "$f.p2: $out"
    if echo "$out" | grep -q "Stack overflow!"; then
        bad=1
    fi
done
# bad=1: a loop without recursion reported a stack overflow after ~4096
# iterations, i.e. the statement leaks one operand-stack slot per execution
exit $bad
