#!/bin/bash
cd "$(dirname "$0")/../.." || exit 2
cargo build --offline >/dev/null 2>&1 || exit 2
out=$(RUST_BACKTRACE=0 ./target/debug/p2sh FOUND/5/repeat.p2 2>&1)
echo "$out"
echo "$out" | grep -q "^before" || exit 2
if echo "$out" | grep -q "panicked"; then
  echo "VIOLATION: the VM panics (capacity overflow) instead of stopping with a runtime error"
  exit 1
fi
exit 0
