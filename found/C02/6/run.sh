#!/bin/bash
cd "$(dirname "$0")/../.." || exit 2
cargo build --offline >/dev/null 2>&1 || exit 2
a=$(./target/debug/p2sh FOUND/6/own_name.p2 2>&1)
b=$(./target/debug/p2sh FOUND/6/own_name_stmt.p2 2>&1)
echo "--- own_name.p2"; echo "$a"
echo "--- own_name_stmt.p2"; echo "$b"
# Neither program uses an undefined name, break/continue, return outside a function or match:
# the compiler must accept them.
if echo "$a$b" | grep -q "compile error"; then
  echo "VIOLATION: fault-free program rejected by the compiler"
  exit 1
fi
exit 0
