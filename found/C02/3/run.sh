#!/bin/bash
cd "$(dirname "$0")/../.." || exit 2
cargo build --offline >/dev/null 2>&1 || exit 2
out=$(./target/debug/p2sh FOUND/3/null_value.p2 2>&1)
echo "$out"
echo "$out" | grep -q "^contains: true" || exit 2
if echo "$out" | grep -q "KeyError: key not found"; then
  echo "VIOLATION: indexing a map with a key that is present (value null) stops with 'key not found'"
  exit 1
fi
echo "$out" | grep -q "^done" || exit 1
exit 0
