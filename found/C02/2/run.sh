#!/bin/bash
cd "$(dirname "$0")/../.." || exit 2
cargo build --offline >/dev/null 2>&1 || exit 2
a=$(./target/debug/p2sh FOUND/2/stale_a.p2 2>&1)
b=$(./target/debug/p2sh FOUND/2/stale_b.p2 2>&1)
echo "--- stale_a.p2 (discarded statement is [7, 8, 9])"; echo "$a"
echo "--- stale_b.p2 (discarded statement is [70, \"unrelated\", 90])"; echo "$b"
# The two programs differ only in a discarded expression statement; what f() and g()
# return cannot depend on it under any evaluation of the source.
if [ "$a" != "$b" ]; then
  echo "VIOLATION: result of reading a not-yet-initialised local depends on stale stack contents"
  exit 1
fi
exit 0
