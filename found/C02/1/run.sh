#!/bin/bash
cd "$(dirname "$0")/../.." || exit 2
cargo build --offline >/dev/null 2>&1 || exit 2
out=$(./target/debug/p2sh FOUND/1/nan_ne.p2 2>&1)
echo "$out"
same=$(echo "$out" | sed -n 's/^same-object: //p')
fresh=$(echo "$out" | sed -n 's/^fresh-objects: //p')
eqsame=$(echo "$out" | sed -n 's/^eq-same-object: //p')
[ -n "$same" ] && [ -n "$fresh" ] || exit 2
# NaN != NaN must not depend on whether both operands are the same heap object,
# and 'a != a' must be the negation of 'a == a'
if [ "$same" != "$fresh" ] || [ "$same" = "$eqsame" ]; then
  echo "VIOLATION: NaN != NaN is '$same' for one variable but '$fresh' for two computed NaNs (a == a is '$eqsame')"
  exit 1
fi
exit 0
