#!/bin/bash
cd "$(dirname "$0")/../.." || exit 2
cargo build --offline >/dev/null 2>&1 || exit 2
out=$(./target/debug/p2sh FOUND/4/empty_block.p2 2>&1)
echo "$out"
echo "$out" | grep -q "^if-branch: null" || exit 2
v=$(echo "$out" | sed -n 's/^fn-empty-block: //p')
w=$(echo "$out" | sed -n 's/^fn-nested-empty-block: //p')
# The body's last statement is an (empty) block, not an expression statement:
# the call yields null, exactly like the same block used as if-branch / match-arm / before a while.
if [ "$v" != "null" ] || [ "$w" != "null" ]; then
  echo "VIOLATION: function whose body ends in an empty block returns the value of the earlier statement ($v, $w)"
  exit 1
fi
exit 0
