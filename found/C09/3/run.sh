#!/bin/bash
cd "$(dirname "$0")/../.." || exit 2
cargo build --offline >/dev/null 2>&1 || exit 2
out=$(./target/debug/p2sh FOUND/3/bigrepeat.p2 2>&1); rc=$?
echo "$out" | head -5; echo "exit code $rc"
# A runtime error ("[line N] Runtime error: ...", exit 0) or an actual result would be fine.
if echo "$out" | grep -q "panicked"; then
  echo "VIOLATION: string*integer with a non-negative count panics (exit $rc) instead of a result or a runtime error"
  exit 1
fi
if [ $rc -ne 0 ]; then echo "VIOLATION: abnormal exit $rc"; exit 1; fi
exit 0
