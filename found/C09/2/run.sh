#!/bin/bash
cd "$(dirname "$0")/../.." || exit 2
cargo build --offline >/dev/null 2>&1 || exit 2
out=$(./target/debug/p2sh FOUND/2/bytemix.p2 2>&1)
echo "$out"
# Acceptable per the statement: a runtime error at the first comparison (combination not
# listed => "every other ... combination is a runtime error").  Also tolerated here: a
# correct numeric comparison (7 vs 3 / 2.5).
if echo "$out" | head -1 | grep -q "Runtime error"; then exit 0; fi
want=$'false\nfalse\ntrue\ntrue\ntrue\ntrue\ntrue\nfalse\nreached end'
if [ "$out" = "$want" ]; then exit 0; fi
echo "VIOLATION: byte/integer and byte/float relational operators neither raise a runtime error nor compare numerically"
exit 1
