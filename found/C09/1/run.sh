#!/bin/bash
cd "$(dirname "$0")/../.." || exit 2
cargo build --offline >/dev/null 2>&1 || exit 2
out=$(./target/debug/p2sh FOUND/1/nan_ne.p2 2>&1)
echo "$out"
# lines: n==n, n!=n, n!=m
eq=$(echo "$out" | sed -n 1p)
ne_same=$(echo "$out" | sed -n 2p)
ne_other=$(echo "$out" | sed -n 3p)
# IEEE: NaN == NaN is false and NaN != NaN is true, whatever variable holds it
if [ "$eq" = "false" ] && [ "$ne_same" = "true" ] && [ "$ne_other" = "true" ]; then
  exit 0
fi
echo "VIOLATION: n == n -> $eq, n != n -> $ne_same, n != m -> $ne_other (n, m both NaN)"
exit 1
