#!/bin/bash
cd "$(dirname "$0")/../.." || exit 2
cargo build --offline >/dev/null 2>&1 || exit 2
D=FOUND/1
rm -f $D/binary.out $D/utf8.out
rc=0
# case A: file handle, binary content: read_line(f); read(f)
./target/debug/p2sh $D/binary.p2 </dev/null
# property: what was returned must be a prefix of the content, and since read(f)
# consumed everything that remained, it must be the whole content
if cmp -s $D/binary.out $D/binary.in; then echo "A: holds"; else
  echo "A: VIOLATION: returned data is not the content:"; od -c $D/binary.out; rc=1; fi
# case B: stdin through a pipe, valid UTF-8 content: read(stdin,1); read_line; read_line; read
( printf '\xc3'; sleep 0.1; printf '\xa9\nabc\nrest' ) | ./target/debug/p2sh $D/utf8.p2
if cmp -s $D/utf8.out $D/utf8.in; then echo "B: holds"; else
  echo "B: VIOLATION: returned data is not the content:"; od -c $D/utf8.out; rc=1; fi
exit $rc
