#!/bin/bash
cd "$(dirname "$0")/../.." || exit 2
cargo build --offline >/dev/null 2>&1 || exit 2
D=FOUND/2
rm -f $D/out.txt $D/out_a.txt
printf 'old:' > $D/out_a.txt
./target/debug/p2sh $D/prog.p2 </dev/null
./target/debug/p2sh $D/prog_append.p2 </dev/null
rc=0
if [ "$(cat $D/out.txt 2>/dev/null)" = "hello" ]; then echo "w: holds"; else
  echo "w: VIOLATION: out.txt has $(wc -c < $D/out.txt) bytes, expected 5 (hello)"; rc=1; fi
if [ "$(cat $D/out_a.txt 2>/dev/null)" = "old:hello" ]; then echo "a: holds"; else
  echo "a: VIOLATION: out_a.txt is '$(cat $D/out_a.txt)', expected 'old:hello'"; rc=1; fi
exit $rc
