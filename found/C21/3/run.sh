#!/bin/bash
cd "$(dirname "$0")/../.." || exit 2
cargo build --offline >/dev/null 2>&1 || exit 2
D=FOUND/3
rm -f $D/out.txt $D/out_m.txt
./target/debug/p2sh $D/prog.p2 </dev/null
./target/debug/p2sh $D/prog_map.p2 </dev/null
rc=0
if [ "$(cat $D/out.txt 2>/dev/null)" = "hello" ]; then echo "array: holds"; else
  echo "array: VIOLATION: out.txt has $(wc -c < $D/out.txt) bytes, expected 5 (hello)"; rc=1; fi
if [ "$(cat $D/out_m.txt 2>/dev/null)" = "hello" ]; then echo "map: holds"; else
  echo "map: VIOLATION: out_m.txt has $(wc -c < $D/out_m.txt) bytes, expected 5 (hello)"; rc=1; fi
exit $rc
