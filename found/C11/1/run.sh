#!/bin/bash
cd "$(dirname "$0")/../.." || exit 2
cargo build --offline >/dev/null 2>&1 || exit 2
P=./target/debug/p2sh
bad=0

# Case A: 21 mutually comparable numbers (integers and floats around 2^53): sort must
# return a sorted permutation; instead the process panics inside slice::sort.
out=$(RUST_BACKTRACE=0 $P FOUND/1/sort_panic.p2 2>FOUND/1/.stderr_a)
rc=$?
echo "case A: rc=$rc stdout='${out:0:60}' stderr='$(head -c 300 FOUND/1/.stderr_a | tr '\n' ' ')'"
if [ $rc -ne 0 ] || ! grep -q '^sorted: ' <<<"$out"; then
  echo "VIOLATION (A): sort did not return (panic / abnormal exit)"
  bad=1
fi
rm -f FOUND/1/.stderr_a

# Case B: 3 elements; after sort a[0] <= a[2] must hold.
out=$($P FOUND/1/sort_unsorted.p2 2>&1)
echo "case B: $out"
if [ "$out" != "true true true" ]; then
  echo "VIOLATION (B): sorted array is not non-decreasing (a[0] > a[2])"
  bad=1
fi
exit $bad
