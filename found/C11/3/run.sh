#!/bin/bash
cd "$(dirname "$0")/../.." || exit 2
cargo build --offline >/dev/null 2>&1 || exit 2
P=./target/debug/p2sh
bad=0
check() { # file, pattern expected on stdout
  out=$($P "FOUND/3/$1" 2>FOUND/3/.err); rc=$?
  echo "$1: rc=$rc stdout='$(tr '\n' '|' <<<"$out")' stderr='$(head -c 200 FOUND/3/.err | tr '\n' ' ')'"
  rm -f FOUND/3/.err
  # Property: the builtin returns its documented result (the final puts line appears) or raises
  # "[line N] Runtime error: <builtin>: ..." (exit status 0 in both cases).
  if [ $rc -ne 0 ] || ! grep -q "$2" <<<"$out"; then
    echo "VIOLATION: $1 crashed (no result, no runtime error naming the builtin)"
    bad=1
  fi
}
check str_cyclic.p2 'str returned a string'
check str_map_cyclic.p2 'str returned a string'
check contains_cyclic.p2 'contains = '
exit $bad
