#!/bin/bash
cd "$(dirname "$0")/../.." || exit 2
cargo build --offline >/dev/null 2>&1 || exit 2
out=$(./target/debug/p2sh FOUND/5/str_error.p2 2>&1)
echo "$out"
# docs/language/builtins.md, str: "It can be an Null, an integer, a floating-point number, a
# character, a byte, a boolean value, an array, a map or a string itself."  An error object is
# none of these, so the property demands "[line 3] Runtime error: str: ...".
if grep -q 'Runtime error: str:' <<<"$out"; then echo "property holds"; exit 0; fi
echo "VIOLATION: str() of an error object (not a documented argument kind) returned a value instead of a runtime error"
exit 1
