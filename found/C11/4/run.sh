#!/bin/bash
cd "$(dirname "$0")/../.." || exit 2
cargo build --offline >/dev/null 2>&1 || exit 2
out=$(./target/debug/p2sh FOUND/4/insert_key.p2 2>&1)
echo "$out"
# Acceptable outcomes:
#  (a) a file handle is not a key kind -> "[line 2] Runtime error: insert: ..." on the first insert
#  (b) it is accepted as a key -> the documented insert/get/contains contract holds:
#      second insert returns the old value 1, len 1, get 2, contains true
if grep -q 'Runtime error: insert:' <<<"$out"; then echo "property holds (rejected)"; exit 0; fi
if grep -q '^second insert -> 1$' <<<"$out" && grep -q '^len           -> 1$' <<<"$out" \
   && grep -q '^get           -> 2$' <<<"$out" && grep -q '^contains      -> true$' <<<"$out"; then
  echo "property holds (accepted and consistent)"; exit 0
fi
echo "VIOLATION: insert accepted a non-key kind without error, and insert/get/contains then break their documented contract"
exit 1
