#!/bin/bash
cd "$(dirname "$0")/../.." || exit 2
cargo build --offline >/dev/null 2>&1 || exit 2
out=$(./target/debug/p2sh FOUND/2/round.p2 2>&1)
echo "$out"
# Rounding a finite float that is already an integer (every |x| >= 2^53 is one) to n decimals
# must give the same float back, so the first four lines must be "true", the fifth must not
# be "inf" and the sixth must be 10461493309220480.
if [ "$(sed -n 1,4p <<<"$out" | tr '\n' ' ')" == "true true true true " ] \
   && [ "$(sed -n 5p <<<"$out")" != "inf" ] \
   && [ "$(sed -n 6p <<<"$out")" == "10461493309220480" ]; then
  echo "property holds"
  exit 0
fi
echo "VIOLATION: round() of a finite, integer-valued float returned inf or a different number"
exit 1
