#!/bin/bash
cd "$(dirname "$0")/../.." || exit 2
cargo build --offline >/dev/null 2>&1 || exit 2
P=./target/debug/p2sh
D=FOUND/2
bad=0

# 1. ARP frame (EtherType 0x0806, an unsupported layer): ($1).ipv4 must be null
a=$($P -s $D/arp_ipv4.p2 < $D/arp.pcap 2>&1)
echo "ARP frame, (\$1).ipv4        : $a"
$P -s $D/arp_fields.p2 < $D/arp.pcap 2>&1
[ "$a" = "null" ] || bad=1

# 2. IPv6 frame (EtherType 0x86DD): ($1).ipv4 must not be an IPv4 object
b=$($P -s $D/v6_as_v4.p2 < $D/ipv6_udp.pcap 2>&1)
echo "IPv6 frame                  : $b"
case "$b" in "type=34525 ipv4=<"*"."*"."*"."*"->"*) bad=1;; esac

# 3. IPv4 protocol 6 (TCP): ($2).udp must not be a UDP object
c=$($P -s $D/tcp_as_udp.p2 < $D/ipv4_tcp.pcap 2>&1)
echo "IPv4/TCP packet             : $c"
case "$c" in "proto=6 udp=<port:80:8080 len:"*) bad=1;; esac

if [ $bad = 1 ]; then
  echo "VIOLATION: named layer property decoded a layer the selector field did not select"
  exit 1
fi
echo "property holds on these inputs"
exit 0
