#!/bin/bash
cd "$(dirname "$0")/../.." || exit 2
cargo build --offline >/dev/null 2>&1 || exit 2
P=./target/debug/p2sh
D=FOUND/1
want="17 10.0.0.1 53"

# Reference: $2/$3 on an Ethernet/IPv4/UDP frame without any earlier read.
clean=$($P -s $D/clean.p2 < $D/ipv4_udp.pcap 2>&1)
# Same frame, same $2/$3 expressions, but ($1).vlan was read first.
after=$($P -s $D/after_vlan_read.p2 < $D/ipv4_udp.pcap 2>&1)
echo "clean run      : $clean"
echo "after .vlan    : $after"
$P -s $D/show.p2 < $D/ipv4_udp.pcap 2>&1

if [ "$clean" != "$want" ]; then
  echo "unexpected: even the clean run does not decode the frame"; exit 1
fi
if [ "$after" != "$want" ]; then
  echo "VIOLATION: \$2 no longer descends into the layer selected by EtherType 0x0800"
  exit 1
fi
echo "property holds on these inputs"
exit 0
