#!/bin/bash
cd "$(dirname "$0")/../.." || exit 2
cargo build --offline >/dev/null 2>&1 || exit 2
P=./target/debug/p2sh
# Same three-line program, once with LF and once with CRLF line endings.
# The failing '/' is on line 3 of both files.
lf=$($P FOUND/1/lf.p2 2>&1 >/dev/null)
crlf=$($P FOUND/1/crlf.p2 2>&1 >/dev/null)
echo "LF   : $lf"
echo "CRLF : $crlf"
want="[line 3] Runtime error: Division by zero."
[ "$lf" = "$want" ] || { echo "unexpected LF baseline"; exit 2; }
case "$crlf" in
  *"Runtime error: Division by zero."*) ;;
  *) echo "unexpected output"; exit 2;;
esac
if [ "$crlf" = "$want" ]; then
  echo "property holds"; exit 0
fi
echo "VIOLATION: expected line 3"; exit 1
