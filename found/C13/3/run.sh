#!/bin/bash
cd "$(dirname "$0")/../.." || exit 2
cargo build --offline >/dev/null 2>&1 || exit 2
P=./target/debug/p2sh
# Line 1-2: let nl = b'<newline>';  (a byte literal holding a line feed)
# Line 3  : let b = 2;
# Line 4  : let c = b / 0;          <- failing operator
out=$($P FOUND/3/byte_newline.p2 2>&1 >/dev/null)
echo "$out"
case "$out" in
  *"Runtime error: Division by zero."*) ;;
  *) echo "unexpected output"; exit 2;;
esac
if [ "$out" = "[line 4] Runtime error: Division by zero." ]; then
  echo "property holds"; exit 0
fi
echo "VIOLATION: expected line 4"; exit 1
