#!/bin/bash
cd "$(dirname "$0")/../.." || exit 2
cargo build --offline 2>/dev/null || exit 2
tmp=$(mktemp -d) || exit 2
trap 'rm -rf "$tmp"' EXIT
# File size limit of 8 KiB: the first 16 KiB write is cut short at the limit,
# the second one fails in the kernel with EFBIG and SIGXFSZ is raised.
out=$( ( trap - XFSZ; ulimit -f 8; ./target/debug/p2sh FOUND/2/prog.p2 "$tmp/out.bin" ) 2>&1 )
status=$?
echo "$out"
echo "exit status: $status"
if [ $status -ne 0 ] || ! grep -q '^end$' <<<"$out"; then
    echo "VIOLATION: interpreter killed while write() met EFBIG"
    exit 1
fi
exit 0
