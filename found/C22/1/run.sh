#!/bin/bash
cd "$(dirname "$0")/../.." || exit 2
cargo build --offline 2>/dev/null || exit 2
# The file has a valid pcap magic, snaplen 0xFFFFFFFF and one record header
# claiming caplen 0xFFFFFFFF followed by 8 bytes. A 2 GB address-space limit
# stands in for any machine on which a 4 GiB allocation cannot be satisfied.
out=$( ( ulimit -v 2000000; ./target/debug/p2sh FOUND/1/prog.p2 FOUND/1/hugecap.pcap ) 2>/tmp/c22_f1_stderr.$$ )
status=$?
echo "$out"
echo "exit status: $status"
head -1 /tmp/c22_f1_stderr.$$; rm -f /tmp/c22_f1_stderr.$$
if [ $status -ne 0 ] || ! grep -q '^end$' <<<"$out"; then
    echo "VIOLATION: interpreter aborted inside pcap_read_next"
    exit 1
fi
exit 0
