#!/bin/bash
cd "$(dirname "$0")/../.." || exit 2
cargo build --offline >/dev/null 2>&1 || exit 2
out=$(./target/debug/p2sh FOUND/3/prog.p2 2>&1)
echo "$out"
echo "$out" | grep -q '^contains true$' || { echo "precondition changed"; exit 0; }
# indexing must return the most recently inserted value (null) instead of failing
if echo "$out" | grep -q '^index null$' && echo "$out" | grep -q '^end$'; then exit 0; fi
echo "VIOLATION"; exit 1
