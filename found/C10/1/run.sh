#!/bin/bash
cd "$(dirname "$0")/../.." || exit 2
cargo build --offline >/dev/null 2>&1 || exit 2
out=$(./target/debug/p2sh FOUND/1/prog.p2 2>&1)
echo "$out"
# preconditions: the language's own == says b == f and a == f
echo "$out" | grep -q '^a==f true b==f true a==b false$' || { echo "precondition changed"; exit 0; }
bad=0
# case 1: most recent insert under a key equal to f was "second" (under b, b == f)
echo "$out" | grep -q '^case1 get "\?second"\?$' || bad=1
echo "$out" | grep -q '^case1 index "\?second"\?$' || bad=1
# case 2: "y" was inserted under f, and a == f, so a must be found with value "y"
echo "$out" | grep -q '^case2 contains true$' || bad=1
echo "$out" | grep -q '^case2 get "\?y"\?$' || bad=1
if [ $bad -eq 1 ]; then echo "VIOLATION"; exit 1; fi
exit 0
