#!/bin/bash
cd "$(dirname "$0")/../.." || exit 2
cargo build --offline >/dev/null 2>&1 || exit 2
out=$(./target/debug/p2sh FOUND/4/prog.p2 2>&1)
echo "$out"
echo "$out" | grep -q '^a==\[1,2\] true$' || { echo "precondition changed"; exit 0; }
bad=0
# Either the key was snapshotted at insert time ([1] present, [1,2] absent, then len 2)
# or it follows the mutation ([1,2]/a present, old value 5 returned, len 1). Anything else is inconsistent.
snap=0; follow=0
if echo "$out" | grep -q '^contains_1 true$' && echo "$out" | grep -q '^contains_12 false$' && echo "$out" | grep -q '^len 2$'; then snap=1; fi
if echo "$out" | grep -q '^contains_a true$' && echo "$out" | grep -q '^contains_12 true$' && echo "$out" | grep -q '^old 5$' && echo "$out" | grep -q '^len 1$'; then follow=1; fi
if [ $snap -eq 0 ] && [ $follow -eq 0 ]; then echo "VIOLATION"; exit 1; fi
exit 0
