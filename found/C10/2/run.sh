#!/bin/bash
cd "$(dirname "$0")/../.." || exit 2
cargo build --offline >/dev/null 2>&1 || exit 2
out=$(./target/debug/p2sh FOUND/2/prog.p2 2>&1)
echo "$out"
echo "$out" | grep -q '^k==k false$' || { echo "precondition changed (k == k is not false)"; exit 0; }
bad=0
# k == k is false, so no lookup/insert with k may hit the entry stored under k
echo "$out" | grep -q '^contains false$' || bad=1
echo "$out" | grep -q '^get null$' || bad=1
echo "$out" | grep -q '^old null$' || bad=1
echo "$out" | grep -q '^len 2$' || bad=1
if [ $bad -eq 1 ]; then echo "VIOLATION"; exit 1; fi
exit 0
