#!/bin/bash
cd "$(dirname "$0")/../.." || exit 2
cargo build --offline >/dev/null 2>&1 || exit 2
P=./target/debug/p2sh
D=FOUND/1
bad=0
for k in unary binary logical; do
    m=$($P $D/min_$k.p2 2>&1 </dev/null)
    f=$($P $D/full_$k.p2 2>&1 </dev/null)
    echo "--- $k: minimal text:";  sed -n '/let x/p' $D/min_$k.p2;  echo "$m"
    echo "--- $k: fully parenthesised per the documented table:"; sed -n '/let x/p' $D/full_$k.p2; echo "$f"
    if [ "$m" != "$f" ]; then
        echo "=> DIFFERENT"
        bad=1
    fi
done
echo "--- control (identifier instead of index, correctly rejected):"
$P $D/ctl_ident.p2 2>&1 </dev/null
if [ $bad -eq 1 ]; then
    echo "VIOLATION: minimal and fully parenthesised texts do not evaluate to the same result"
    exit 1
fi
echo "property holds on these inputs"
exit 0
