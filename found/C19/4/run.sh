#!/bin/bash
cd "$(dirname "$0")/../.." || exit 2
cargo build --offline >/dev/null 2>&1 || exit 2
D=FOUND/4
T=$(mktemp -d)
trap 'rm -rf "$T"' EXIT
./target/debug/p2sh $D/ops.p2 $D/in.pcap a n > "$T/orig.txt" 2>&1
rc=0
# (a) write all packets, every pcap_write reports success, then exit(0)
./target/debug/p2sh $D/write_exit.p2 $D/in.pcap "$T/out.pcap" 2>&1
echo "size of written file: $(stat -c %s "$T/out.pcap")"
./target/debug/p2sh $D/ops.p2 "$T/out.pcap" a n > "$T/back.txt" 2>&1
echo "== original"; cat "$T/orig.txt"; echo "== read back"; cat "$T/back.txt"
cmp -s "$T/orig.txt" "$T/back.txt" || { echo "VIOLATION (a): file written before exit() does not read back"; rc=1; }
# (b) write and read back in the same script; there is no way to flush a pcap handle
./target/debug/p2sh $D/write_readback.p2 $D/in.pcap "$T/out2.pcap" > "$T/b.txt" 2>&1
cat "$T/b.txt"
grep -q '^readback n=3$' "$T/b.txt" || { echo "VIOLATION (b): reading the new file back in the same script fails"; rc=1; }
[ $rc = 0 ] && echo "property holds"
exit $rc
