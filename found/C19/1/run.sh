#!/bin/bash
cd "$(dirname "$0")/../.." || exit 2
cargo build --offline >/dev/null 2>&1 || exit 2
D=FOUND/1
T=$(mktemp -d)
trap 'rm -rf "$T"' EXIT
# records of the original file (well-formed: nanosecond magic, snaplen 65536, caplens 3, 65536, 2)
./target/debug/p2sh $D/ops.p2 $D/in.pcap a n > "$T/orig.txt" 2>&1
# copy every packet with pcap_write into a new file (separate process, so the writer is flushed at exit)
./target/debug/p2sh $D/copy.p2 $D/in.pcap "$T/out.pcap" > "$T/copy.txt" 2>&1
# read the new file back
./target/debug/p2sh $D/ops.p2 "$T/out.pcap" a n > "$T/back.txt" 2>&1
echo "== original"; cat "$T/orig.txt"
echo "== copy"; cat "$T/copy.txt"
echo "== read back"; cat "$T/back.txt"
if ! grep -q '^A 3$' "$T/orig.txt"; then echo "unexpected: original not read as 3 records"; exit 2; fi
if cmp -s "$T/orig.txt" "$T/back.txt"; then
  echo "property holds"; exit 0
else
  echo "VIOLATION: records read back differ from the records written"; exit 1
fi
