#!/bin/bash
cd "$(dirname "$0")/../.." || exit 2
cargo build --offline >/dev/null 2>&1 || exit 2
D=FOUND/3
# corrupt.pcap: snaplen 100, two complete records, then a record header whose caplen
# was corrupted to 0x01000010 (> snaplen).  k = 2.
out=$(./target/debug/p2sh $D/ops.p2 $D/corrupt.pcap n n n n a 2>&1)
echo "$out"
# after the 2 records: only N (null) / E (error) / AE (error from read_all) / "A 0" may follow
bad=$(echo "$out" | tail -n +3 | grep -v -x -e 'N' -e 'E' -e 'AE' -e 'A 0')
first2=$(echo "$out" | head -n 2)
if [ "$first2" != $'P 1 2 3 3 96354\nP 4 5 5 6 462025' ]; then echo "VIOLATION: first two records wrong"; exit 1; fi
if [ -n "$bad" ]; then
  echo "VIOLATION: records yielded after the error object:"; echo "$bad"; exit 1
fi
echo "property holds"; exit 0
