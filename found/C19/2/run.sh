#!/bin/bash
cd "$(dirname "$0")/../.." || exit 2
cargo build --offline >/dev/null 2>&1 || exit 2
D=FOUND/2
# corrupt.pcap: snaplen 100, two complete records, then a record header whose caplen
# was corrupted to 0x01000010 (> snaplen).  k = 2.
out=$(./target/debug/p2sh $D/ops.p2 $D/corrupt.pcap a 2>&1)
echo "== pcap_read_all(f):"; echo "$out"
exp_a=$'A 2\nP 1 2 3 3 96354\nP 4 5 5 6 462025'
# accepted shapes: the 2 records (then null/error on the next call)
if [ "$out" == "$exp_a" ]; then echo "property holds"; exit 0; fi
# reference: pcap_read_next does deliver the two records before the error
echo "== pcap_read_next x3:"; ./target/debug/p2sh $D/ops.p2 $D/corrupt.pcap n n n 2>&1
echo "VIOLATION: pcap_read_all did not yield the 2 complete records that precede the corruption"
exit 1
