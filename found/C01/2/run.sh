#!/bin/bash
cd "$(dirname "$0")/../.." || exit 2
cargo build --offline >/dev/null 2>&1 || exit 2
D=FOUND/2
out=$(mktemp); err=$(mktemp)
echo "control (same shape, 8 levels deep):"; timeout 50 ./target/debug/p2sh $D/ladder8.p2 </dev/null; echo "control exit status: $?"
echo "brackets: max nesting depth of ladder64.p2 = $(python3 -c "
d=m=0
for c in open('$D/ladder64.p2').read():
    if c in '([{': d+=1; m=max(m,d)
    elif c in ')]}': d-=1
print(m)" 2>/dev/null)"
timeout 50 ./target/debug/p2sh $D/ladder64.p2 >"$out" 2>"$err" </dev/null
rc=$?
echo "exit status: $rc"
echo "stderr (first lines):"; head -n 6 "$err"
viol=0
# killed by a signal (SIGABRT = 134, SIGSEGV = 139) or Rust's stack overflow / panic message
if [ $rc -ge 128 ] || [ $rc -eq 101 ] || grep -q "overflowed its stack\|panicked at" "$err"; then
  echo "VIOLATION: the interpreter aborted instead of running the program or (only) reporting diagnostics"
  viol=1
fi
rm -f "$out" "$err"
exit $viol
