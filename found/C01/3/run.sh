#!/bin/bash
cd "$(dirname "$0")/../.." || exit 2
cargo build --offline >/dev/null 2>&1 || exit 2
D=FOUND/3
out=$(mktemp); err=$(mktemp)
timeout 50 ./target/debug/p2sh $D/minus.p2 >"$out" 2>"$err" </dev/null
rc=$?
echo "exit status: $rc"
echo "stderr (first lines):"; head -n 6 "$err"
viol=0
# killed by a signal (SIGABRT = 134, SIGSEGV = 139) or Rust's stack overflow / panic message
if [ $rc -ge 128 ] || [ $rc -eq 101 ] || grep -q "overflowed its stack\|panicked at" "$err"; then
  echo "VIOLATION: the interpreter aborted instead of running the program or (only) reporting diagnostics"
  viol=1
fi
rm -f "$out" "$err"
exit $viol
