#!/bin/bash
# '@ true' is an action-less filter whose pattern is true for every packet, and
# nothing modifies the packets: the output must be the input stream, byte for byte.
cd "$(dirname "$0")/../.." || exit 2
cargo build --offline >/dev/null 2>&1 || exit 2
P=./target/debug/p2sh
D=FOUND/2
T=$(mktemp -d)
$P $D/prog.p2 < $D/in.pcap > $T/out.pcap 2> $T/err.txt
echo "stderr:"; cat $T/err.txt
echo "input  bytes: $(wc -c < $D/in.pcap)"
echo "output bytes: $(wc -c < $T/out.pcap)"
if cmp -s $T/out.pcap $D/in.pcap; then
    rm -rf $T
    echo "every packet written once: property holds"
    exit 0
fi
rm -rf $T
echo "VIOLATION: '@ true' did not write every packet (the packets of even captured length are missing)"
exit 1
