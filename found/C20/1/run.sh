#!/bin/bash
# The end filter must run exactly once after the packet loop ("end 2" on stdout).
cd "$(dirname "$0")/../.." || exit 2
cargo build --offline >/dev/null 2>&1 || exit 2
P=./target/debug/p2sh
D=FOUND/1

# control: a runtime error raised at shallow depth in a filter; the loop stops and
# the end filter still runs once (this is what the tree does and what the property says)
ctl=$($P -s $D/control.p2 < $D/in.pcap 2>/dev/null)
echo "control stdout: [$ctl]"

# the case: the runtime error of the filter is a stack overflow in a function it calls
out=$($P -s $D/prog.p2 < $D/in.pcap 2>/tmp/c20_f1_err.$$)
echo "stdout: [$out]"
echo "stderr:"; cat /tmp/c20_f1_err.$$; rm -f /tmp/c20_f1_err.$$

n=$(printf '%s\n' "$out" | grep -c '^end 2$')
if [ "$n" -eq 1 ]; then
    echo "end filter ran exactly once: property holds"
    exit 0
fi
echo "VIOLATION: end filter ran $n times (expected exactly once, printing 'end 2')"
exit 1
