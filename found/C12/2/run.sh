#!/bin/bash
cd "$(dirname "$0")/../.." || exit 2
cargo build --offline >/dev/null 2>&1 || exit 2
out=$(./target/debug/p2sh FOUND/2/prog.p2 2>&1)
echo "$out"
expected='[1{{{{]
[{{{{a]
[{{{ff]
[1****]'
if [ "$out" == "$expected" ]; then echo "OK"; exit 0; fi
echo "VIOLATION: expected"; echo "$expected"; exit 1
