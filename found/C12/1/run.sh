#!/bin/bash
cd "$(dirname "$0")/../.." || exit 2
cargo build --offline >/dev/null 2>&1 || exit 2
out=$(./target/debug/p2sh FOUND/1/prog.p2 2>FOUND/1/stderr.txt)
rc=$?
err=$(cat FOUND/1/stderr.txt); rm -f FOUND/1/stderr.txt
echo "rc=$rc"; echo "stdout: $out"; echo "stderr: $(echo "$err" | head -3)"
# Property: a specifier without a matching argument is a runtime error
# ("[line N] Runtime error: ...", exit status 0, execution continues per VM rules).
if echo "$err" | grep -q "Runtime error: format:" && [ $rc -eq 0 ]; then
  echo "OK: runtime error reported"; exit 0
fi
echo "VIOLATION: no runtime error (panic / wrong output)"; exit 1
